"""Shared driver for pertype.cpp (C14, C16, C17)."""
import os

from vlib import core

MON = os.path.join(core.VERIF, "mon")
NPARTS = 8


def targets(flavour="plain"):
    return [core.parted("pertype", os.path.join(MON, "pertype.cpp"), NPARTS, flavour=flavour)]


def run_pertype(prop, tier, seed, flavour="plain"):
    od = core.run_dir(prop, tier)
    paths = core.build(targets(flavour))
    return core.run_sharded([{"name": "pertype", "binary": paths["pertype"], "nshards": core.NCPU, "out": od,
                              "args": ["--seed", str(seed), "--tier", tier, "--prop", prop]
                                      + core.deep(tier, **{"C14": dict(pairs=20000000, triples=10000000), "C16": dict(values=3000000),
                                                           "C17": dict(probes=1000000)}.get(prop, {}))
                                      + core.boost(tier, flavour, **{"C14": dict(pairs=1600000, triples=800000), "C16": dict(values=16000),
                                                                     "C17": dict(probes=8000)}.get(prop, {})),
                              "env": core.SAN_ENV if flavour == "san" else None}], timeout=3600)
