"""Shared driver for the relation monitor (rel.cpp) serving C03, C04 and C05."""
import os

from vlib import core

MON = os.path.join(core.VERIF, "mon")
NPARTS = 12


def targets(flavour="plain"):
    return [core.parted("rel", os.path.join(MON, "rel.cpp"), NPARTS, flavour=flavour)]


def run_rel(prop, tier, seed, flavour="plain", extra_args=()):
    od = core.run_dir(prop, tier)
    paths = core.build(targets(flavour))
    res = core.run_sharded([{"name": "rel", "binary": paths["rel"], "nshards": core.NCPU, "out": od,
                             "args": ["--seed", str(seed), "--tier", tier, "--prop", prop] + list(extra_args)
                                     + core.deep(tier, **{"C03": dict(rescalings=262144), "C04": dict(operands=600000, histories=150000),
                                                          "C05": dict(inputs=160000, operands=160000)}.get(prop, {}))
                                     + core.boost(tier, flavour, **{"C03": dict(rescalings=1024), "C04": dict(operands=16000, histories=3000),
                                                                    "C05": dict(inputs=8000, operands=8000)}.get(prop, {})),
                             "env": core.SAN_ENV if flavour == "san" else None}], timeout=3600)
    return res
