"""C11 — the angle between two vectors is always a real number in [0, pi]."""
import os

from vlib import core

MON = os.path.join(core.VERIF, "mon")


def targets(flavour="plain"):
    return [core.parted("c11_angle", os.path.join(MON, "c11_angle.cpp"), 3, flavour=flavour)]


def run(tier, seed, flavour="plain"):
    V = core.Verdict("C11", tier, seed)
    V.assumptions = [
        "reference angle atan2(|a x b|, a.b) evaluated by libquadmath in binary128 on the values the library stores",
        "bound 8*sqrt(epsilon_T) rad (1.2e-7 in double): the conditioning of the arc-cosine near 0 and pi",
        "vector lengths are kept inside the range where squared lengths neither overflow nor underflow",
    ]
    od = core.run_dir("C11", tier)
    paths = core.build(targets(flavour))
    res = core.run_sharded([{"name": "c11_angle", "binary": paths["c11_angle"], "nshards": core.NCPU, "out": od,
                             "args": ["--seed", str(seed), "--tier", tier] + core.deep(tier, pairs=1000000) + core.boost(tier, flavour, pairs=160000),
                             "env": core.SAN_ENV if flavour == "san" else None}])
    V.absorb(res)
    m = core.merge_summaries(res)
    forms = m["lists"].get("forms", [])
    per_type = {t: m["counters"].get("forms_" + t, 0) for t in ("float", "double", "long double")}
    if len(forms) < 8 or min(per_type.values()) < 8:
        V.inconclusive.append("fewer than the 8 angle kernels were exercised: %s" % per_type)
    V.coverage = {
        "evaluations": m["evaluations"], "distinct_nontrivial": m["distinct_nontrivial"],
        "rule": "every (A,B) with PhQ::Angle<T> constructible from (A,B) and every member a.Angle(b), detected at compile time "
                "over the 92 quantity types + Vector + PlanarVector, x 3 numeric types x 7 input classes (random, exactly parallel, "
                "antiparallel, nearly parallel/antiparallel with perturbation 1e-20..1e-1, axis-aligned, perpendicular); "
                "distinct = (form, numeric type, class)",
        "samples": m["samples"], "forms_detected": forms, "forms_per_numeric_type": per_type,
        "max_abs_error_rad": m["maxima"], "symmetry_not_bit_identical": m["counters"].get("symmetry_not_bit_identical", 0),
    }
    return V.finish()


def replay(path, seed):
    return run("quick", seed)
