"""./check --setup : create directories and pre-build the monitor cache for the current tree."""
import importlib
import os
import time

from vlib import core


def all_targets():
    ts = []
    from props import dumpbase
    ts.append(dumpbase.dump_target())
    for pid in ["c%02d" % i for i in range(1, 21)]:
        try:
            mod = importlib.import_module("props.%s" % pid)
        except ImportError:
            continue
        f = getattr(mod, "targets", None)
        if f:
            try:
                ts += f()
            except TypeError:
                ts += f("plain")
        g = getattr(mod, "setup_targets", None)
        if g:
            ts += g()
    # de-duplicate by path
    seen = {}
    for t in ts:
        seen[t.path()] = t
    return list(seen.values())


def run(argv):
    t0 = time.time()
    for d in (core.BUILD, core.OUT, core.EVIDENCE):
        os.makedirs(d, exist_ok=True)
    core.prune_cache()
    try:
        ts = all_targets()
        core.build(ts)
    except core.BuildError as e:
        print("setup: build failed: %s" % e)
        print((e.stderr or "")[-3000:])
        return 1
    print("setup: %d binaries ready for tree %s in %.0fs" % (len(ts), core.tree_hash(), time.time() - t0))
    return 0
