"""C15 — printing is lossless and canonical; serialisations are well-formed."""
import json
import os
import re

from vlib import core

MON = os.path.join(core.VERIF, "mon")
FORM_PARTS = 8

COMPONENTS = {1: None, 2: ["x", "y"], 3: ["x", "y", "z"], 6: ["xx", "xy", "xz", "yy", "yz", "zz"],
              9: ["xx", "xy", "xz", "yx", "yy", "yz", "zx", "zy", "zz"]}
NUM = re.compile(r"-?\d+(?:\.\d+)?(?:e[+-]\d+)?")


def targets(flavour="plain"):
    return [core.Target("c15_print", [os.path.join(MON, "c15_print.cpp")], flavour=flavour, include_gen=False),
            core.parted("c15_forms", os.path.join(MON, "c15_forms.cpp"), FORM_PARTS, flavour=flavour)]


def pairs_hook(pairs):
    return pairs  # keep key order (a list of pairs)


def check_value(val, n, numbers):
    """`val` is the parsed JSON-like value (numbers kept as text, objects as pair lists)."""
    if n == 1:
        return isinstance(val, str) and [val] == numbers, "scalar value"
    if not isinstance(val, list):
        return False, "expected an object with components"
    keys = [k for k, _ in val]
    vals = [v for _, v in val]
    if keys != COMPONENTS[n]:
        return False, "component names %s" % keys
    return vals == numbers, "component values"


def load_json(text):
    return json.loads(text, parse_float=str, parse_int=str, object_pairs_hook=pairs_hook)


def check_event(e):
    """Returns None if the form is well-formed, else a short reason."""
    text, nums, abbr, n, form = e["text"], e["numbers"], e["abbr"], e["n"], e["form"]
    dim = bool(e["dimensional"])
    kind = form.split("(")[0]
    if kind in ("Print", "stream"):
        body = text
        if dim:
            if not text.endswith(" " + abbr):
                return "does not end with the unit abbreviation"
            body = text[: len(text) - len(abbr) - 1]
        found = NUM.findall(body)
        if found != nums:
            return "number strings %s, expected %s" % (found, nums)
        rest = NUM.sub("", body)
        if re.search(r"[0-9A-Za-z]", rest):
            return "unexpected characters around the numbers: %r" % rest
        if n == 1 and rest != "":
            return "scalar print has extra characters %r" % rest
        return None
    if kind == "JSON":
        try:
            v = load_json(text)
        except Exception as ex:
            return "not valid JSON: %s" % ex
        if dim:
            if not isinstance(v, list) or [k for k, _ in v] != ["value", "unit"]:
                return "fields are not value, unit"
            if v[1][1] != abbr:
                return "unit field %r" % (v[1][1],)
            ok, why = check_value(v[0][1], n, nums)
        else:
            ok, why = check_value(v, n, nums)
        return None if ok else "JSON %s differ" % why
    if kind == "YAML":
        # flow-style mapping with bare keys: quote the keys and reuse the JSON reader
        jt = re.sub(r"([{,])([A-Za-z_]+):", r'\1"\2":', text)
        try:
            v = load_json(jt)
        except Exception as ex:
            return "not a flow mapping: %s" % ex
        if dim:
            if not isinstance(v, list) or [k for k, _ in v] != ["value", "unit"]:
                return "fields are not value, unit"
            if v[1][1] != abbr:
                return "unit field %r" % (v[1][1],)
            ok, why = check_value(v[0][1], n, nums)
        else:
            ok, why = check_value(v, n, nums)
        return None if ok else "YAML %s differ" % why
    if kind == "XML":
        inner = text
        if dim:
            m = re.fullmatch(r"<value>(.*)</value><unit>(.*)</unit>", text, re.S)
            if not m:
                return "not <value>..</value><unit>..</unit>"
            if m.group(2) != abbr:
                return "unit element %r" % m.group(2)
            inner = m.group(1)
        if n == 1:
            return None if inner == nums[0] else "scalar XML value %r" % inner
        els = re.findall(r"<([a-z]+)>([^<]*)</\1>", inner)
        if "".join("<%s>%s</%s>" % (t, v, t) for t, v in els) != inner:
            return "XML has text outside its elements"
        if [t for t, _ in els] != COMPONENTS[n]:
            return "element names %s" % [t for t, _ in els]
        return None if [v for _, v in els] == nums else "XML component values differ"
    return "unknown form"


def decide_forms(V, results):
    n = 0
    kinds = {}
    samples = []
    prints = {}
    for r in results:
        p = os.path.join(r.out_dir, "events.jsonl")
        if not os.path.exists(p):
            continue
        for line in open(p, errors="replace"):
            line = line.strip()
            if not line:
                continue
            try:
                e = json.loads(line)
            except Exception:
                V.inconclusive.append("unreadable event line")
                continue
            n += 1
            try:  # the monitor escapes the text byte-wise; restore the UTF-8 string
                e["text"] = e["text"].encode("latin-1").decode("utf-8")
            except (UnicodeEncodeError, UnicodeDecodeError):
                V.add_violation("C15|forms|%s|%s|%s|not-utf8" % (e["q"], e["form"], e["T"]), {"text": e["text"]})
                continue
            kinds[e["form"]] = kinds.get(e["form"], 0) + 1
            why = check_event(e)
            if why:
                V.add_violation("C15|forms|%s|%s|%s" % (e["q"], e["form"], e["T"]),
                                {"unit": e["unit"], "text": e["text"], "expected_numbers": e["numbers"],
                                 "abbreviation": e["abbr"], "reason": why})
            ident = (e["q"], e["T"], tuple(e["numbers"]))
            if e["form"] == "Print":
                prints[ident] = e["text"]
            elif e["form"] == "stream":
                if prints.get(ident) != e["text"]:
                    V.add_violation("C15|forms|%s|stream-differs-from-print|%s" % (e["q"], e["T"]),
                                    {"streamed": e["text"], "printed": prints.get(ident)})
            if len(samples) < 5 and e["n"] in (3, 6) and e["form"] in ("JSON(unit)", "Print(unit)", "XML") and e["T"] == "double" \
                    and e["form"] not in [s["form"] for s in samples]:
                samples.append({k: e[k] for k in ("q", "T", "form", "unit", "text", "numbers", "abbr")})
    return n, kinds, samples


def run(tier, seed, flavour="plain"):
    V = core.Verdict("C15", tier, seed)
    V.assumptions = [
        "notation interval decided by exact comparison in binary128 (1000*|x| is exact for 64-bit significands)",
        "finite normal values only: NaN, infinities and subnormals are counted and skipped",
        "glibc strtof/strtod/strtold and libstdc++ num_put are correctly rounding (the round trip exercises both)",
        "JSON validity is decided by python's json module; YAML forms are flow mappings with bare keys, read by quoting the keys",
    ]
    od = core.run_dir("C15", tier)
    paths = core.build(targets(flavour))
    env = core.SAN_ENV if flavour == "san" else None
    res = core.run_sharded([
        {"name": "c15_print", "binary": paths["c15_print"], "nshards": core.NCPU, "out": od,
         "args": ["--seed", str(seed), "--tier", tier], "env": env, "timeout": 7200},
        {"name": "c15_forms", "binary": paths["c15_forms"], "nshards": core.NCPU, "out": od,
         "args": ["--seed", str(seed), "--tier", tier], "env": env},
    ], timeout=7200)
    V.absorb(res)
    num = core.merge_summaries([r for r in res if r.name == "c15_print"])
    frm = core.merge_summaries([r for r in res if r.name == "c15_forms"])
    n_events, kinds, fsamples = decide_forms(V, [r for r in res if r.name == "c15_forms"])
    if num["counters"].get("boundary_sets", 0) != 3:
        V.inconclusive.append("boundary neighbourhoods were not exercised")
    qt = {t: frm["counters"].get("quantity_types_" + t, 0) for t in ("float", "double", "long double")}
    if min(qt.values()) < 90 or n_events < 1000:
        V.inconclusive.append("composite forms: only %s quantity types / %d events observed" % (qt, n_events))
    V.coverage = {
        "evaluations": num["evaluations"] + n_events,
        "distinct_nontrivial": num["distinct_nontrivial"] + frm["distinct_nontrivial"],
        "rule": "numbers: +-64 neighbours of each of the 8 interval boundaries (decimal, double-rounded and float-rounded) and 400 "
                "values inside each rounding sliver, per numeric type; stratified random bit patterns (sign x exponent x mantissa) and "
                "values dense around the intervals; thorough: every one of the 2^32 float bit patterns. distinct = (numeric type, "
                "notation interval, value class, sign). forms: every quantity type x numeric type x every unit x "
                "{Print, JSON, XML, YAML, stream} with pairwise distinct components; distinct = (quantity, numeric type, unit)",
        "samples": num["samples"][:4] + fsamples,
        "number_level_counters": num["counters"],
        "exhaustive_float": num["counters"].get("float_patterns_enumerated", 0) == 2 ** 32,
        "stream_under_field_width_probes": frm["counters"].get("stream_with_field_width_probes", 0),
        "form_events_checked": n_events, "form_events_by_kind": kinds, "quantity_types_by_numeric_type": qt,
        "form_lists": frm["lists"],
    }
    return V.finish()


def replay(path, seed):
    return run("quick", seed)
