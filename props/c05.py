"""C05 — relations that undo each other really are mutual inverses."""
from props import relbase
from vlib import core

targets = relbase.targets


def run(tier, seed, flavour="plain"):
    V = core.Verdict("C05", tier, seed)
    V.assumptions = [
        "pairs are derived from signatures: constructor X(A..) and constructor A_r(X, rest) over the harvested constructors, and "
        "operator pairs (a op b) op' b; positive log-uniform inputs over +-20 decades (+-8 for float)",
        "bound: 4 ulps of the recovered operand (8 for 3- and 4-argument relations); for additive families (all participants share "
        "one dimension set: total = static + dynamic, R = cp - cv, position + displacement) 4 ulps at the scale of the largest operand",
    ]
    res = relbase.run_rel("C05", tier, seed, flavour)
    V.absorb(res)
    m = core.merge_summaries(res)
    c = m["counters"]
    T = ("float", "double", "long double")
    cp = {t: c.get("c05_constructor_pairs_" + t, 0) for t in T}
    op = {t: c.get("c05_operator_pairs_" + t, 0) for t in T}
    if min(cp.values()) < 300 or min(op.values()) < 100:
        V.inconclusive.append("too few inverse pairs exercised: ctor %s operator %s" % (cp, op))
    V.coverage = {
        "evaluations": m["evaluations"], "distinct_nontrivial": m["distinct_nontrivial"],
        "rule": "every inverse pair derived from the declared signatures x 3 numeric types x random positive inputs; "
                "distinct = (pair, numeric type)",
        "samples": m["samples"], "constructor_pairs": cp, "operator_pairs": op,
        "pairs_generated": c.get("harvest_pairs", 0),
        "harvested_but_not_confirmed": m["lists"].get("harvested_but_not_confirmed", []),
        "max_error_ulps": m["maxima"],
    }
    return V.finish()


def replay(path, seed):
    return run("quick", seed)
