"""C04 — arithmetic on quantities is exactly arithmetic on their SI values."""
from props import relbase
from vlib import core

targets = relbase.targets


def run(tier, seed, flavour="plain"):
    V = core.Verdict("C04", tier, seed)
    V.assumptions = [
        "monitors are built -O1 -ffp-contract=off without -ffast-math on x86-64: the IEEE operation named by the operator symbol "
        "is the one the hardware performs (the repository's own -ffast-math build is out of scope)",
        "operators between a tensor and a vector/tensor (matrix products) are judged against a binary128 reference within 4 ulps "
        "at the scale of the largest term, because the order of summation is not fixed by the operator symbol",
    ]
    res = relbase.run_rel("C04", tier, seed, flavour)
    V.absorb(res)
    m = core.merge_summaries(res)
    c = m["counters"]
    inst = {t: c.get("c04_operator_instances_" + t, 0) for t in ("float", "double", "long double")}
    if min(inst.values()) < 400:
        V.inconclusive.append("fewer than 400 operator instances exercised per numeric type: %s" % inst)
    if min(c.get("c04_history_types_" + t, 0) for t in inst) < 80:
        V.inconclusive.append("compound-assignment histories ran on fewer than 80 types")
    if min(c.get("c04_math_types_" + t, 0) for t in inst) < 5:
        V.inconclusive.append("math overloads ran on fewer than 5 dimensionless scalar types")
    V.coverage = {
        "evaluations": m["evaluations"], "distinct_nontrivial": m["distinct_nontrivial"],
        "rule": "every operator instance A op B (op in + - * /) detected at compile time over all ordered pairs of the 92 quantity "
                "types and the plain number, x 3 numeric types x random operands of both signs; result compared bit for bit with the "
                "IEEE operation on the stored values (component-wise by shape); constructor twins of each operator; random "
                "compound-assignment histories (length 1-40, all available op= mixed) against the chain of pure operators; "
                "std:: math overloads on dimensionless scalars. distinct = (instance, numeric type) + (history type) + (math type)",
        "samples": m["samples"],
        "operator_instances": inst,
        "operators_by_symbol": {k[6:]: v for k, v in c.items() if k.startswith("c04_op") and len(k) == 7},
        "twins": {t: c.get("c04_twins_" + t, 0) for t in inst},
        "history_types": {t: c.get("c04_history_types_" + t, 0) for t in inst},
        "history_step_kinds_total": c.get("c04_history_step_kinds", 0),
        "math_types": {t: c.get("c04_math_types_" + t, 0) for t in inst},
        "unmodelled_shape_combinations": m["lists"].get("c04_unmodelled_shape_combinations", []),
        "tensor_product_max_error": m["maxima"],
    }
    return V.finish()


def replay(path, seed):
    return run("quick", seed)
