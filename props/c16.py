"""C16 — changing floating-point precision casts each component and nothing else."""
from props import pertypebase
from vlib import core

targets = pertypebase.targets


def run(tier, seed, flavour="plain"):
    V = core.Verdict("C16", tier, seed)
    V.assumptions = [
        "the oracle is static_cast<T2> of each stored component, compared bit for bit (NaN never occurs: inputs are finite)",
        "directions are re-normalised: each component within 2 ulps (of the coarser of the two types) of the cast, unit length within 4 eps",
    ]
    res = pertypebase.run_pertype("C16", tier, seed, flavour)
    V.absorb(res)
    m = core.merge_summaries(res)
    conv = {k[16:]: v for k, v in m["counters"].items() if k.startswith("c16_conversions_")}
    if len(conv) != 6 or min(conv.values()) < 96:
        V.inconclusive.append("expected 6 ordered numeric-type pairs x 96 types, saw %s" % conv)
    if m["counters"].get("c16_assignments_onto_equal_comparing_target", 0) == 0:
        V.inconclusive.append("no assignment onto an equal-comparing target (signed zeros) was observed")
    V.coverage = {
        "evaluations": m["evaluations"], "distinct_nontrivial": m["distinct_nontrivial"],
        "rule": "92 quantity types + 4 vector/tensor types x 6 ordered pairs of numeric types x converting constructor and "
                "assignment; components pairwise distinct: full random mantissas (not representable when narrowed), small integers, "
                "values that overflow to infinity or become subnormal in the narrower type, signed zeros; widening then narrowing must be "
                "the identity. distinct = (type, numeric-type pair)",
        "samples": m["samples"], "types_by_conversion": conv,
        "assignments_onto_a_target_that_compares_equal_but_holds_the_other_zero": m["counters"].get("c16_assignments_onto_equal_comparing_target", 0),
        "no_converting_constructor": m["lists"].get("c16_no_converting_constructor", []),
        "no_converting_assignment": m["lists"].get("c16_no_converting_assignment", []),
        "direction_unit_length_deviation_eps": m["maxima"],
    }
    return V.finish()


def replay(path, seed):
    return run("quick", seed)
