"""C10 — directions are unit vectors; magnitude times direction rebuilds the vector."""
import glob
import os
import re

from vlib import core

MON = os.path.join(core.VERIF, "mon")
NPARTS = 16
TYPES = ("float", "double", "long double")


def targets(flavour="plain"):
    return [core.parted("c10_direction", os.path.join(MON, "c10_direction.cpp"), NPARTS, flavour=flavour, include_gen=False)]


# ----------------------------------------------------------------------------------------------
# what the headers declare (so that a construction path or a vector quantity the monitor does not
# know about makes the run inconclusive instead of silently uncovered)
# ----------------------------------------------------------------------------------------------
def _read(name):
    with open(os.path.join(core.INCLUDE, "PhQ", name), encoding="utf-8", errors="replace") as f:
        return f.read()


def _class_body(text, cls):
    m = re.search(r"^class %s\s*(?::\s*public\s[^{;]*)?\{" % cls, text, re.M)
    if not m:
        return None
    end = text.find("\n};", m.end())
    return text[m.end():end if end > 0 else len(text)]


def _param_path(cls, params):
    """Name of the construction path for one declared constructor/Set parameter list; None = not a path
    (copy/move); '?' = not understood."""
    p = " ".join(params.split())
    if p == "":
        return "()"
    if re.fullmatch(r"const NumericType x, const NumericType y, const NumericType z", p):
        return "(x,y,z)"
    if re.fullmatch(r"const NumericType x, const NumericType y", p):
        return "(x,y)"
    if re.fullmatch(r"const std::array<NumericType, [23]>& \w+", p):
        return "(array)"
    m = re.fullmatch(r"const (\w+)<NumericType>& \w+", p)
    if m:
        return None if m.group(1) == cls else "(%s)" % m.group(1)
    if re.fullmatch(r"%s<NumericType>&& \w+" % cls, p):
        return None
    if re.fullmatch(r"const %s<OtherNumericType>& \w+" % cls, p):
        return "(%s<Other>)" % cls
    return "?" + p


def harvest():
    """Returns (expected direction paths, vector quantities, planar vector quantities, problems)."""
    paths, problems = set(), []
    for cls, hdr in (("Direction", "Direction.hpp"), ("PlanarDirection", "PlanarDirection.hpp")):
        body = _class_body(_read(hdr), cls)
        if body is None:
            problems.append("cannot find class %s in %s" % (cls, hdr))
            continue
        for m in re.finditer(r"(?<![~\w:<>])%s\(([^()]*)\)\s*(?=[;:{]|noexcept|=)" % cls, body):
            n = _param_path(cls, m.group(1))
            if n is None:
                continue
            if n.startswith("?"):
                problems.append("%s declares a constructor the monitor does not understand: %s(%s)" % (hdr, cls, n[1:]))
            else:
                paths.add(cls + n)
        for m in re.finditer(r"\bvoid Set\(([^()]*)\)", body):
            n = _param_path(cls, m.group(1))
            if n is None or n.startswith("?"):
                problems.append("%s declares a Set overload the monitor does not understand: %s" % (hdr, m.group(1)))
            else:
                paths.add(cls + "::Set" + n)
        if re.search(r"static constexpr %s<NumericType> Zero\(\)" % cls, body):
            paths.add(cls + "::Zero()")
        for m in re.finditer(r"\bDirection<NumericType> Cross\(\s*const (\w+)<NumericType>&", body):
            paths.add("%s::Cross(%s)" % (cls, m.group(1)))
    vq, pq = [], []
    for f in sorted(glob.glob(os.path.join(core.INCLUDE, "PhQ", "*.hpp"))):
        stem = os.path.basename(f)[:-4]
        t = open(f, encoding="utf-8", errors="replace").read()
        if re.search(r"^class %s\s*:\s*public\s+DimensionalVector<" % stem, t, re.M):
            vq.append(stem)
        if re.search(r"^class %s\s*:\s*public\s+DimensionalPlanarVector<" % stem, t, re.M):
            pq.append(stem)
        body = _class_body(t, stem)
        if body is None:
            continue
        if re.search(r"PhQ::Direction<NumericType> Direction\(\) const", body):
            paths.add(stem + "::Direction()")
        if re.search(r"PhQ::PlanarDirection<NumericType> PlanarDirection\(\) const", body):
            paths.add(stem + "::PlanarDirection()")
    return sorted(paths), vq, pq, problems


def run(tier, seed, flavour="plain", prop="C10"):
    V = core.Verdict(prop, tier, seed)
    V.assumptions = [
        "binary128 arithmetic of libquadmath (113-bit significand) as the reference; monitors are built -O1 -ffp-contract=off "
        "without -ffast-math, float/double in SSE registers and long double in x87 extended precision",
        "range of the property: exact squared length of the input inside [2^(emin+8), 2^(emax-8)] of the numeric type; inputs outside "
        "are counted as skipped and not judged",
        "bounds: each stored component within 4 ulps of v_i/|v| (a-priori bound of the library's algorithm: 3.5 u relative); "
        "| |d| - 1 | <= 4 ulps of the type at 1.0 (both from the stored components in binary128 and as reported by Magnitude()); "
        "sine of the angle to the input <= 4 eps; magnitude within 3 ulps of the binary128 norm (a-priori 2.5 u in 3-D); "
        "recomposition within 4 ulps at the scale of |v|; power-of-two rescaling bit-identical; other positive factors within "
        "8 ulps plus the exact change of v/|v| caused by rounding c*v",
        "premise of the bit-identity clause: 'the squared length neither overflows nor underflows' is read as 'no IEEE overflow/underflow "
        "occurs while computing it'; inputs where the square of a small component is below the normal range of the type (in either "
        "scale) are judged for unit length, parallelism and component accuracy but only counted for bit-identity under power-of-two "
        "rescaling (rescaling.rescale_pow2_with_underflowing_square_*; the sum x*x+y*y(+z*z) is then rounded from different addends "
        "in the two scales and about 1 in 500 such inputs differs by one ulp)",
        "the expected scalar type of each vector quantity's magnitude is a table in the monitor (e.g. Traction -> ScalarTraction), "
        "in addition to the run-time comparison of Dimensions()",
        "the converting assignment operator= from another numeric type (casts, does not re-normalise) is observed but judged by C16, not here",
    ]
    od = core.run_dir(prop, tier)
    paths = core.build(targets(flavour))
    expected_paths, vq, pq, problems = harvest()
    res = core.run_sharded([{"name": "c10_direction", "binary": paths["c10_direction"], "nshards": core.NCPU, "out": od,
                             "args": ["--seed", str(seed), "--tier", tier] + core.deep(tier, cases=960000) + core.boost(tier, flavour, cases=48000),
                             "env": core.SAN_ENV if flavour == "san" else None}], timeout=3600)
    V.absorb(res)
    m = core.merge_summaries(res)
    cnt = m["counters"]
    # ---- observations per construction path x numeric type
    per_path = {}
    for k, v in cnt.items():
        if k.startswith("obs|"):
            _, p, t = k.split("|")
            per_path.setdefault(p, {})[t] = v
    for p in expected_paths:
        for t in TYPES:
            if per_path.get(p, {}).get(t, 0) <= 0:
                V.inconclusive.append("construction path %s got no observation in %s" % (p, t))
    for msg in problems:
        V.inconclusive.append(msg)
    not_declared = sorted(p for p in per_path if p not in expected_paths)
    # ---- observations per quantity x numeric type
    per_q, acc, rec = {}, {}, {}
    for k, v in cnt.items():
        parts = k.split("|")
        if parts[0] == "qobs":
            per_q.setdefault(parts[1], {})[parts[2]] = v
        elif parts[0] == "accessors":
            acc.setdefault(parts[1], {})[parts[2]] = v
        elif parts[0] == "recompose":
            rec.setdefault(parts[1], {}).setdefault(parts[2], {})[parts[3]] = v
    for q in vq + pq + ["Vector", "PlanarVector"]:
        for t in TYPES:
            if per_q.get(q, {}).get(t, 0) <= 0:
                V.inconclusive.append("vector quantity %s got no magnitude/recomposition observation in %s" % (q, t))
            if q not in ("Vector", "PlanarVector") and acc.get(q, {}).get(t, 0) <= 0:
                V.inconclusive.append("vector quantity %s: component accessors not observed in %s" % (q, t))
            if not any(ops.get(t, 0) > 0 for ops in rec.get(q, {}).values()):
                V.inconclusive.append("vector quantity %s: no recomposition operation observed in %s" % (q, t))
    for q in per_q:
        if q not in vq + pq + ["Vector", "PlanarVector"]:
            V.inconclusive.append("the monitor exercised %s, which the headers no longer derive from DimensionalVector/DimensionalPlanarVector" % q)
    for t in TYPES:
        if cnt.get("rescale_pow2_" + t, 0) <= 0 or cnt.get("rescale_other_" + t, 0) <= 0:
            V.inconclusive.append("rescaling was not observed in %s" % t)
        if cnt.get("zero_vectors_" + t, 0) <= 0:
            V.inconclusive.append("the zero vector was not observed in %s" % t)
    mx = m["maxima"]
    V.coverage = {
        "evaluations": m["evaluations"], "distinct_nontrivial": m["distinct_nontrivial"],
        "rule": "every construction path of Direction/PlanarDirection harvested from the headers x {float,double,long double} x generated "
                "vectors in 16 input classes (random directions over 200 binades and over the whole admissible range of lengths, axis-aligned, "
                "one dominant component with ratios up to 2^50 and beyond, signed zeros in some slots, small integers, nearly equal components, "
                "nearly axis-aligned, both edges of the admissible range, extreme ratios, powers of two, all-zero with every sign pattern), each "
                "followed by a power-of-two and a general positive rescaling; every vector quantity x numeric type x the same classes; "
                "distinct = (path or quantity, numeric type, input class)",
        "samples": m["samples"],
        "construction_paths_declared_by_headers": expected_paths,
        "construction_paths_exercised_beyond_harvest": not_declared,
        "observations_per_path": per_path,
        "vector_quantities_3d": vq, "vector_quantities_planar": pq,
        "observations_per_quantity": per_q,
        "accessor_observations_per_quantity": acc,
        "recomposition_observations": rec,
        "magnitude_type_pairing": m["lists"].get("magnitude_type_pairing", []),
        "dimensions": m["lists"].get("dimensions", []),
        "recompose_operations": m["lists"].get("recompose_operations", []),
        "recompose_not_declared": m["lists"].get("recompose_not_declared", []),
        "accessors_declared_but_uninstantiable": m["lists"].get("accessors_declared_but_uninstantiable", []),
        "max_unit_length_error_ulps": {t: mx.get("max_unit_length_error_ulps_" + t) for t in TYPES},
        "max_reported_magnitude_of_direction_error_ulps": {t: mx.get("max_reported_magnitude_error_ulps_" + t) for t in TYPES},
        "max_component_error_ulps": {t: mx.get("max_component_error_ulps_" + t) for t in TYPES},
        "max_sine_to_input_in_eps": {t: mx.get("max_sine_to_input_eps_" + t) for t in TYPES},
        "max_change_under_general_rescaling_ulps": {t: mx.get("max_change_under_rescaling_ulps_" + t) for t in TYPES},
        "max_magnitude_error_ulps": {t: mx.get("max_magnitude_error_ulps_" + t) for t in TYPES},
        "max_recompose_error_ulps_at_scale_of_length": {t: mx.get("max_recompose_error_ulps_" + t) for t in TYPES},
        "max_cross_sine_over_bound": {t: mx.get("max_cross_sine_over_bound_" + t) for t in TYPES},
        "rescaling": {k: v for k, v in sorted(cnt.items()) if k.startswith("rescale_")},
        "pow2_rescaling_outside_premise_witnesses": [_maybe_json(x) for x in
                                                     m["lists"].get("witness_pow2_rescaling_with_underflowing_component_square", [])][:6],
        "zero_vectors": {t: cnt.get("zero_vectors_" + t, 0) for t in TYPES},
        "cross": {k: v for k, v in sorted(cnt.items()) if k.startswith("cross_")},
        "skipped_squared_length_out_of_range": cnt.get("skipped_squared_length_out_of_range", 0),
        "not_judged_here": {k: v for k, v in sorted(list(cnt.items()) + list(mx.items())) if k.startswith("info_")},
    }
    return V.finish()


def _maybe_json(x):
    import json
    try:
        return json.loads(x)
    except Exception:
        return x


def replay(path, seed):
    return run("quick", seed)
