"""C14 — comparison is a total order on stored values; equal objects hash equally."""
import os

from props import dumpbase, pertypebase
from vlib import core


def targets(flavour="plain"):
    return pertypebase.targets(flavour) + [core.Target("c06_dims", [os.path.join(dumpbase.MON, "c06_dims.cpp")], flavour=flavour, include_gen=False)]


def run(tier, seed, flavour="plain"):
    V = core.Verdict("C14", tier, seed)
    V.assumptions = [
        "the model order is lexicographic comparison of the stored component tuples with IEEE comparison (so -0 == +0); NaN is excluded",
        "directions hold what their constructor produces; the model is evaluated on the stored value",
        "Dimensions is observed by the exponent-box monitor shared with C06",
    ]
    res = pertypebase.run_pertype("C14", tier, seed, flavour)
    paths = core.build(targets(flavour))
    od = core.run_dir("C14dims", tier)
    res2 = core.run_sharded([{"name": "c06_dims", "binary": paths["c06_dims"], "nshards": 4, "out": od,
                              "args": ["--seed", str(seed), "--tier", tier],
                              "env": core.SAN_ENV if flavour == "san" else None}])
    for r in res2:  # re-key the shared monitor's violations under this property
        for v in r.violations:
            v["key"] = v.get("key", "").replace("C06|", "C14|", 1)
    V.absorb(res + res2)
    m = core.merge_summaries(res)
    m2 = core.merge_summaries(res2)
    c = m["counters"]
    types = {t: c.get("c14_types_" + t, 0) for t in ("float", "double", "long double")}
    if min(types.values()) < 99:
        V.inconclusive.append("fewer than 99 types (92 quantities + 4 shapes + 3 models) exercised: %s" % types)
    V.coverage = {
        "evaluations": m["evaluations"] + m2["evaluations"], "distinct_nontrivial": m["distinct_nontrivial"] + m2["distinct_nontrivial"],
        "rule": "per type and numeric type: component values from {-inf,-2,-0,+0,1,2,+inf}; all tuples and all ordered pairs for <= 3 "
                "components, tie-forcing families (equal prefix, one differing slot) and random pairs for 6 and 9 components; six "
                "operators against the lexicographic tuple model, hash equality of equal objects, random triples for transitivity, "
                "std::set and std::unordered_set of a shuffled multiset. distinct = (type, numeric type, first differing slot, outcome)",
        "samples": m["samples"], "types_exercised": types, "objects": c.get("c14_objects", 0),
        "hashed_types": {t: c.get("c14_hashed_types_" + t, 0) for t in types},
        "types_without_std_hash": m["lists"].get("c14_types_without_std_hash", []),
        "dimensions_monitor": m2["counters"],
    }
    return V.finish()


def replay(path, seed):
    return run("quick", seed)
