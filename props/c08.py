"""C08 — enumeration tables are total, unambiguous and parse to the unit meant."""
import os
import re

from props import dumpbase
from vlib import core
from vlib import symbols as S

NPARTS = 8


def targets(flavour="plain"):
    return [core.parted("c08_parse", os.path.join(dumpbase.MON, "c08_parse.cpp"), NPARTS, flavour=flavour)]


def norm_model(s):
    return re.sub(r"[ _]", "", s).lower()


def sys_atoms(s):
    return [a for a in re.split(r"[·\-*, ]+", s) if a]


def canon_atom(a):
    # lb is the pound-force of the "foot-pound-second" systems; R is the degree Rankine
    return {"lb": "lbf", "R": "°R", "degR": "°R", "°K": "K"}.get(a, a)


def decide_dump(V, d):
    """Table half of C08, decided on the dump.  Returns (evaluations, distinct set, samples, stats)."""
    evals = 0
    distinct = set()
    samples = []
    stats = {"enumerators": 0, "spellings": 0, "spellings_meaning_checked": 0, "unparsed_spellings": [],
             "ambiguous_spellings_accepted_on_magnitude": 0, "enum_types": 0}
    enums = list(d["unit_types"]) + [d["unit_system"], d["model_type"]]
    for u in enums:
        stats["enum_types"] += 1
        tname = u["name"]
        is_unit = "dispatch" in u
        named = {e["value"]: e for e in u["enumerators"]}
        seen_abbr = {}
        for e in u["enumerators"]:
            stats["enumerators"] += 1
            evals += 1
            key = "C08|type=%s|unit=%s" % (tname, e["id"])
            distinct.add(("enum", tname, e["id"]))
            if not e.get("has_abbreviation"):
                V.add_violation(key + "|missing-abbreviation", {})
                continue
            a = e["abbreviation"]
            if a in seen_abbr:
                V.add_violation(key + "|duplicate-abbreviation", {"abbreviation": a, "also": seen_abbr[a]})
            seen_abbr[a] = e["id"]
            if e.get("streamed") is not None and e["streamed"] != a:
                V.add_violation(key + "|streams-differently", {"streamed": e["streamed"], "abbreviation": a})
            if e.get("parse_back") != e["value"]:
                V.add_violation(key + "|abbreviation-does-not-parse-back", {"abbreviation": a, "parsed": e.get("parse_back")})
            if is_unit:
                for tn in ("float", "double", "long double"):
                    evals += 1
                    got = u["dispatch"][tn].get(str(e["value"]))
                    if got != [1, 1]:
                        V.add_violation(key + "|missing-conversion-dispatch", {"numeric_type": tn, "to_from": got})
        for k in u["abbreviation_table_keys"]:
            evals += 1
            if k not in named:
                V.add_violation("C08|type=%s|abbreviation-table-key-not-an-enumerator" % tname, {"key": k})
        # spellings
        dims = tuple(u["dimensions"]) if is_unit else None
        for sp in u["spellings"]:
            stats["spellings"] += 1
            evals += 1
            s = sp["spelling"]
            key = "C08|type=%s|spelling=%s" % (tname, s)
            if sp["parsed"] != sp["table"]:
                V.add_violation(key + "|parse-differs-from-table", sp)
                continue
            if not sp["named"] or sp["table"] not in named:
                V.add_violation(key + "|maps-to-undeclared-enumerator", sp)
                continue
            target = named[sp["table"]]
            if not target.get("has_abbreviation"):
                continue
            if is_unit:
                try:
                    want = [m for m in S.meanings(target["abbreviation"]) if m.dims == dims]
                except S.ParseError:
                    want = []
                if len({(m.mag, m.pi) for m in want}) != 1:
                    V.inconclusive.append("abbreviation %r of %s has no unique meaning" % (target["abbreviation"], tname))
                    continue
                w = want[0]
                try:
                    ms = S.meanings(s)
                except S.ParseError as ex:
                    stats["unparsed_spellings"].append("%s:%s" % (tname, s))
                    continue
                stats["spellings_meaning_checked"] += 1
                distinct.add(("sp", tname, s))
                if len(ms) > 1:
                    stats["ambiguous_spellings_accepted_on_magnitude"] += 1
                if not any(m.dims == dims and m.mag == w.mag and m.pi == w.pi for m in ms):
                    V.add_violation(key + "|denotes-a-different-magnitude",
                                    {"spelling": s, "maps_to": target["id"], "maps_to_symbol": target["abbreviation"],
                                     "spelling_means": [{"magnitude": str(m.mag), "pi_power": m.pi, "dimensions": list(m.dims)} for m in ms],
                                     "enumerator_means": {"magnitude": str(w.mag), "pi_power": w.pi, "dimensions": list(w.dims)}})
                if len(samples) < 6 and s != target["abbreviation"] and ("/" in s or "^" in s) and len(samples) < 6 and tname not in [x.get("type") for x in samples]:
                    samples.append({"type": tname, "spelling": s, "maps_to": target["id"],
                                    "exact_magnitude": str(w.mag) + ("·π^%d" % w.pi if w.pi else "")})
            elif tname == "UnitSystem":
                distinct.add(("sp", tname, s))
                stats["spellings_meaning_checked"] += 1
                mine = {canon_atom(a) for a in sys_atoms(target["abbreviation"])}
                atoms = {canon_atom(a) for a in sys_atoms(s)}
                if not atoms or not atoms <= mine:
                    V.add_violation(key + "|names-units-not-in-the-system", {"maps_to": target["id"], "atoms": sorted(atoms)})
                    continue
                for o in u["enumerators"]:
                    if o["value"] != target["value"] and o.get("has_abbreviation"):
                        if atoms <= {canon_atom(a) for a in sys_atoms(o["abbreviation"])}:
                            V.add_violation(key + "|does-not-identify-one-system", {"maps_to": target["id"], "also_fits": o["id"]})
            else:
                distinct.add(("sp", tname, s))
                stats["spellings_meaning_checked"] += 1
                if norm_model(s) != norm_model(target["abbreviation"]):
                    V.add_violation(key + "|names-a-different-model", {"maps_to": target["id"]})
    return evals, distinct, samples, stats


def run(tier, seed, flavour="plain"):
    V = core.Verdict("C08", tier, seed)
    V.assumptions = [
        "compiler reflection (__PRETTY_FUNCTION__) lists exactly the declared enumerators of each enum type",
        "exact SI magnitudes of the atoms in vlib/symbols.py; `lb`, `C`, `R`, `F` are resolved by the dimension of the unit type",
        "ConstitutiveModel::Type has no stream operator in the tree; streaming is checked wherever one exists",
    ]
    od = core.run_dir("C08", tier)
    paths = core.build(targets(flavour) + [dumpbase.dump_target(flavour)])
    d, crash = dumpbase.get_dump(flavour)
    if crash:
        V.add_violation("crash|dump|" + core.classify_crash(crash["rc"], crash["stderr_tail"]), crash)
        return V.finish()
    evals, distinct, samples, stats = decide_dump(V, d)
    res = core.run_sharded([{"name": "c08_parse", "binary": paths["c08_parse"], "nshards": core.NCPU, "out": od,
                             "args": ["--seed", str(seed), "--tier", tier] + core.deep(tier, strings=12000000) + core.boost(tier, flavour, strings=240000),
                             "env": core.SAN_ENV if flavour == "san" else None}])
    V.absorb(res)
    m = core.merge_summaries(res)
    if m["counters"].get("enum_types", 0) != stats["enum_types"]:
        V.inconclusive.append("parse monitor covered %s enum types, dump lists %d" % (m["counters"].get("enum_types"), stats["enum_types"]))
    V.coverage = {
        "evaluations": evals + m["evaluations"], "distinct_nontrivial": len(distinct) + m["distinct_nontrivial"],
        "rule": "table half (exhaustive): one case per reflected enumerator and per spelling-table entry whose meaning was "
                "expanded by the independent grammar; string half: generated strings, distinct = (enum type, mutation kind) "
                "classes and (unit, numeric type) there-and-back conversions",
        "samples": samples + m["samples"][:3],
        "exhaustive": True,
        "exhaustive_scope": "enumerators, abbreviation tables, dispatch tables and spelling tables are complete enumerations; "
                            "generated non-spellings are a sample",
        "table": {k: (v if not isinstance(v, list) else v[:40]) for k, v in stats.items()},
        "unparsed_spellings_count": len(stats["unparsed_spellings"]),
        "string_monitor": m["counters"], "string_monitor_maxima": m["maxima"],
    }
    return V.finish()


def on_build_error(e, tier, seed):
    """A named enumerator without Conversion specialisation fails to link: that is a C08 violation
    (an enumerator that cannot convert), not a harness failure."""
    m = re.search(r"undefined reference to `[^']*PhQ::Internal::Conversion<([^>]+)>", e.stderr or "")
    if not m:
        return None
    V = core.Verdict("C08", tier, seed)
    V.add_violation("C08|enumerator-without-conversion|%s" % m.group(1).replace(" ", ""), {"linker": (e.stderr or "")[:1500]})
    V.coverage = {"evaluations": 1, "distinct_nontrivial": 2, "rule": "link step", "samples": [m.group(0)]}
    return V.finish()


def replay(path, seed):
    return run("quick", seed)
