"""Build and run the dump program against the current tree; parse symbols with the independent oracle."""
import json
import os
import subprocess

from vlib import core
from vlib import symbols as S

MON = os.path.join(core.VERIF, "mon")
NPARTS = 12


def dump_target(flavour="plain"):
    src = os.path.join(MON, "dump.cpp")
    tus = [(src, ("-DDUMP_PART=%d" % k, "-DDUMP_PARTS=%d" % NPARTS)) for k in range(NPARTS)]
    tus += [(src, ("-DDUMP_QUANT",)), (os.path.join(MON, "dump_main.cpp"), ())]
    return core.Target("dump", tus, flavour=flavour)


def get_dump(flavour="plain"):
    """Returns (dump dict, crash info or None).  The program is executed on every call: the dump is
    an observation of the running library, not a cached artefact."""
    t = dump_target(flavour)
    path = core.build([t])["dump"]
    env = dict(os.environ)
    if flavour == "san":
        env.update(core.SAN_ENV)
    p = subprocess.run([path], stdout=subprocess.PIPE, stderr=subprocess.PIPE, env=env, timeout=600)
    if p.returncode != 0:
        return None, {"rc": p.returncode, "stderr_tail": p.stderr.decode(errors="replace")[-3000:],
                      "stdout_tail": p.stdout.decode(errors="replace")[-600:]}
    return json.loads(p.stdout.decode()), None


def unit_tables(d):
    """For each unit type: dims, enumerators, and the oracle meaning (exact magnitude) of every
    abbreviation.  Returns dict name -> info; info['meaning'][value] = Meaning or None; problems listed."""
    out = {}
    for u in d["unit_types"]:
        dims = tuple(u["dimensions"])
        info = {"raw": u, "dims": dims, "meaning": {}, "problems": [], "offset": {}}
        for e in u["enumerators"]:
            v = e["value"]
            if not e.get("has_abbreviation"):
                info["meaning"][v] = None
                continue
            a = e["abbreviation"]
            try:
                ms = S.meanings(a)
            except S.ParseError as ex:
                info["meaning"][v] = None
                info["problems"].append(("unparsed-abbreviation", e["id"], a, str(ex)))
                continue
            info["all_meanings_" + str(v)] = ms
            # the symbol's own dimension: all meanings of a symbol that survive must agree
            info["meaning"][v] = ms
            off = S.temperature_offset(a) if u["name"] == "Temperature" else None
            info["offset"][v] = off if off is not None else 0
        out[u["name"]] = info
    return out


def pick(ms, dims):
    """Among alternative meanings pick those with the wanted dimension."""
    return [m for m in (ms or []) if m.dims == tuple(dims)]


def choose_meaning(symbol, dims):
    """The exact meaning of a unit symbol for a unit type with the declared dimension exponents `dims`.
    The declared dimensions only disambiguate symbols that have alternatives (e.g. 'lb' as mass or force).  When no
    alternative has the declared dimensions but the symbol has one magnitude anyway, that magnitude is returned with
    dims_agree=False: the symbol still says what the unit is, and whether the declaration is right is C06's question.
    Returns (meaning or None, dims_agree).  Raises symbols.ParseError."""
    ms = S.meanings(symbol)
    with_dims = [m for m in ms if m.dims == tuple(dims)]
    if len({(m.mag, m.pi) for m in with_dims}) == 1:
        return with_dims[0], True
    if not with_dims and len({(m.mag, m.pi) for m in ms}) == 1:
        return ms[0], False
    return None, False
