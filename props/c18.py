"""C18 — named physical definitions evaluate their textbook formulas.

A fixed table of definitional relations (mon/c18_defs.cpp), each run on independent positive inputs in float, double and
long double and compared with the same formula on binary128.  A relation that is gone is reported absent (detection
idiom); a relation whose body does not compile for one numeric type is reported as the violation
`C18|row=<name>|<type>|does-not-compile` and the remaining rows are still checked."""
import json
import os
import re

from vlib import core

MON = os.path.join(core.VERIF, "mon")
SRC = os.path.join(MON, "c18_defs.cpp")
NPARTS = 16
TYPES = ("float", "double", "long double")
TYPE_IDX = {"float": 0, "double": 1, "long double": 2}
MIN_ROWS = 40
K = 4.0

# "... required from 'void row(...) [with T = float; int I = 119; OutQ = ..."
# (g++ prints ASCII or typographic quotes depending on the locale)
_ROW_FRAME = re.compile(r"required from \S?void row\([^\n]*?\[with T = (float|double|long double); int I = (\d+);")


WIDE_ROWS = os.path.join(core.VERIF, "calib", "c18_float_wide_rows.txt")
RANGE_CASES = os.path.join(core.VERIF, "calib", "c18_range_cases.txt")


def _target(flavour, disabled):
    defines = []
    if disabled:
        defines.append("C18_DISABLED=" + "".join("{%d,%d}," % (i, TYPE_IDX[t]) for i, t in sorted(disabled)))
    return core.parted("c18_defs", SRC, NPARTS, flavour=flavour, include_gen=False, defines=defines,
                       extra_flags=["-ftemplate-backtrace-limit=0"])


def targets(flavour="plain"):
    """For ./check --setup: isolate rows that do not compile first, so that one such row cannot fail the whole setup."""
    try:
        _build(flavour)
    except (core.BuildError, core.Inconclusive):
        pass
    return [_target(flavour, _load_disabled(flavour)[0])]


def _disabled_path(flavour):
    # next to the binaries: one file per (tree, monitor source, flavour)
    h = core.file_hash([SRC] + core.common_headers())[:12]
    return os.path.join(core.tree_dir(), "c18_disabled-%s-%s.json" % (flavour, h))


def _load_disabled(flavour):
    """(row index, numeric type) pairs found not to compile for this tree + this monitor source, with the message."""
    try:
        d = json.load(open(_disabled_path(flavour)))
        return {(int(i), t) for i, t, _ in d}, {(int(i), t): m for i, t, m in d}
    except (OSError, ValueError):
        return set(), {}


def _failing_pairs(stderr):
    """Each 'error:' block of g++ ends the instantiation backtrace that precedes it; attribute the error to the row
    frame(s) of that block."""
    found = {}
    block = []
    for line in (stderr or "").splitlines():
        block.append(line)
        if " error: " in line or " error:" in line:
            text = "\n".join(block)
            for t, i in _ROW_FRAME.findall(text):
                found.setdefault((int(i), t), line.strip()[:400])
            block = []
    return found


def _build(flavour):
    """Build; a row whose body does not compile is taken out (and remembered) and the build repeated."""
    disabled, messages = _load_disabled(flavour)
    for _ in range(8):
        try:
            paths = core.build([_target(flavour, disabled)])
            return paths["c18_defs"], disabled, messages
        except core.BuildError as e:
            new = {k: v for k, v in _failing_pairs(e.stderr).items() if k not in disabled}
            if not new:
                raise
            for k, v in new.items():
                disabled.add(k)
                messages[k] = v
            core.log("[C18] %d (row, numeric type) pairs do not compile; rebuilding without them: %s" %
                     (len(new), sorted(new)))
            json.dump([[i, t, messages[(i, t)]] for i, t in sorted(disabled)], open(_disabled_path(flavour), "w"))
    raise core.Inconclusive("C18: the monitor still does not build after removing %d rows" % len(disabled))


def run(tier, seed, flavour="plain", prop="C18"):
    V = core.Verdict(prop, tier, seed)
    V.assumptions = [
        "binary128 arithmetic and sqrtq of libquadmath; monitors are built -O1 -ffp-contract=off without -ffast-math "
        "(the repository's own -O3 -ffast-math build is out of scope)",
        "bound: |got - exact| <= 4 ulp_T(exact) for product/quotient/root formulas, <= 4 (ulp_T(exact) + Delta) for formulas "
        "that subtract, Delta = largest change of the binary128 formula when one input moves by one ulp of T",
        "inputs are positive (property text) and constructed in the standard unit (Q(value, Q::Unit()) / Q(value)), so no "
        "unit conversion takes part; directions are normalised by the library and the oracle uses the stored unit vector",
        "the textbook formulas in the table of mon/c18_defs.cpp are the intended definitions",
    ]
    od = core.run_dir(prop, tier)
    binary, disabled, messages = _build(flavour)
    res = core.run_sharded([{"name": "c18_defs", "binary": binary, "nshards": core.NCPU, "out": od,
                             "args": ["--seed", str(seed), "--tier", tier, "--wide_rows", WIDE_ROWS, "--range_cases", RANGE_CASES] + core.deep(tier, cases=3000000) + core.boost(tier, flavour, cases=40000),
                             "env": core.SAN_ENV if flavour == "san" else None}], timeout=3600)
    V.absorb(res)
    m = core.merge_summaries(res)
    C, M, L = m["counters"], m["maxima"], m["lists"]
    V.assumptions.append("float rows listed in calib/c18_float_wide_rows.txt (calibrated on the tree they were committed with) are also "
                         "judged over +-100 binades; the other float rows over +-6 decades only, because their intermediate products "
                         "leave the float range although the result does not")
    V.assumptions.append("calibrated range cases (calib/c18_range_cases.txt): 256 fixed inputs per (row, numeric type) over +-100 / +-800 / "
                         "+-13000 binades; those that held with margin (error <= half the bound) on the tree the file was committed with "
                         "must still hold; which inputs those are depends on the library's order of evaluation, which the property does "
                         "not fix, so the file records it instead of the harness assuming it")
    replayed = {t: C.get("range_cases_replayed|" + t, 0) for t in TYPES}
    if min(replayed.values()) == 0:
        V.inconclusive.append("no calibrated range case was replayed for some numeric type: %s" % replayed)
    if L.get("range_rows_without_calibration"):
        V.assumptions.append("rows without a line in the calibration file (added to the table later): %s" %
                             ", ".join(sorted(L["range_rows_without_calibration"])[:12]))
    table = sorted(L.get("rows_table", []))
    present = sorted(L.get("rows_present", []))
    absent = sorted(L.get("rows_absent", []))
    absent_names = {a.split(" [")[0] for a in absent}
    # rows that do not compile for one numeric type: a violation each, with the compiler's message
    not_compiling = []
    seen_disabled = set()
    for ent in sorted(L.get("rows_disabled", [])):
        name, t, idx = ent.rsplit("|", 2)
        seen_disabled.add((int(idx), t))
        msg = messages.get((int(idx), t), "")
        not_compiling.append({"row": name, "numeric_type": t, "compiler": msg})
        V.add_violation("C18|row=%s|%s|does-not-compile" % (name, t),
                        {"row": name, "numeric_type": t, "row_index": int(idx), "compiler_error": msg,
                         "meaning": "the relation exists for this numeric type (it is declared) but instantiating it is a "
                                    "compile error, so it cannot evaluate to its formula"})
    if seen_disabled != set(disabled):
        V.inconclusive.append("the rows taken out of the build (%s) are not the rows the monitor reports as disabled (%s)" %
                              (sorted(disabled), sorted(seen_disabled)))
    per_row = {}
    zero = []
    for name in present:
        ent = {}
        for t in TYPES:
            if any(d["row"] == name and d["numeric_type"] == t for d in not_compiling):
                ent[t] = "does-not-compile"
                continue
            tail = "|%s|%s" % (name, t)
            obs = C.get("obs" + tail, 0)
            e = {"observations": obs, "max_error_ulps": M.get("ulps" + tail)}
            if ("cond" + tail) in M:
                e["max_error_in_units_of_ulp_plus_delta"] = M["cond" + tail]
                e["max_delta_ulps"] = M.get("delta_ulps" + tail)
            if C.get("skipped" + tail):
                e["skipped_no_finite_normal_reference"] = C["skipped" + tail]
            if C.get("readback_mismatch" + tail):
                e["inputs_not_stored_as_given"] = C["readback_mismatch" + tail]
            ent[t] = e
            if obs == 0:
                zero.append("%s [%s]" % (name, t))
        per_row[name] = ent
    if zero:
        V.inconclusive.append("%d present (row, numeric type) pairs got no observation: %s" % (len(zero), "; ".join(zero[:6])))
    if len(present) < MIN_ROWS:
        V.inconclusive.append("only %d rows of the table are present in the tree (floor %d); absent: %s" %
                              (len(present), MIN_ROWS, "; ".join(absent[:8])))
    n_table = int(M.get("rows_in_table", 0))
    if len(table) != n_table or len(set(present) | absent_names) != n_table:
        V.inconclusive.append("the table has %d rows but %d were reported (%d present, %d absent)" %
                              (n_table, len(table), len(present), len(absent)))
    mism = sum(v for k, v in C.items() if k.startswith("readback_mismatch|"))
    if mism:
        V.inconclusive.append("%d inputs were not stored as given by the standard-unit constructor (C17/C02 territory); "
                              "the oracle used the stored values" % mism)

    def worst(prefix):
        best = (None, None)
        for k, v in M.items():
            if k.startswith(prefix + "|") and (best[1] is None or v > best[1]):
                best = (k[len(prefix) + 1:], v)
        return {"row|type": best[0], "value": best[1]}

    plain_keys = [k for k in M if k.startswith("ulps|") and ("cond|" + k[5:]) not in M]
    worst_plain = max(plain_keys, key=lambda k: M[k]) if plain_keys else None
    V.coverage = {
        "evaluations": m["evaluations"], "distinct_nontrivial": m["distinct_nontrivial"],
        "rule": "one evaluation per output slot of one call of one row; distinct = (row, numeric type, input class) with "
                "input classes wide (log-uniform +-20 decades, +-6 for float), moderate (+-3 decades), near-equal "
                "(common scale times 1 +- 2^-k) and near-one (1 +- 2^-k); all arguments drawn independently",
        "samples": m["samples"],
        "calibrated_range_cases_replayed": replayed,
        "rows_in_table": n_table, "rows_present": len(present), "rows_absent": absent,
        "rows_not_compiling": not_compiling,
        "bound_K": K,
        "max_error_ulps_rows_without_subtraction": {"row|type": worst_plain[5:] if worst_plain else None,
                                                     "value": M.get(worst_plain) if worst_plain else None},
        "max_error_in_units_of_ulp_plus_delta_rows_with_subtraction": worst("cond"),
        "max_delta_ulps": worst("delta_ulps"),
        "skipped_cases_without_finite_normal_reference": sum(v for k, v in C.items() if k.startswith("skipped|")),
        "rows": per_row,
    }
    return V.finish()


def replay(path, seed):
    return run("quick", seed)
