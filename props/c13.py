"""C13 — Newtonian fluid models: linear viscous stress and its exact inverse."""
import os

from props import dumpbase
from vlib import core

NPARTS = 3  # one translation unit per numeric type of the model
CLASSES = ("Incompressible", "Compressible")
TYPES = ("float", "double", "long double")
MEMBER_FUNCTIONS = ("Stress(strain_rate)", "StrainRate(stress)", "Stress(strain)", "Strain(stress)",
                    "Stress(strain,strain_rate)")
COMPOSITES = ("StrainRate(Stress(strain_rate))", "Stress(StrainRate(stress))",
              "linearity:Stress(strain_rate)", "linearity:StrainRate(stress)",
              "homogeneity:Stress(strain_rate)", "homogeneity:StrainRate(stress)")


def targets(flavour="plain"):
    return [core.parted("c13_fluid", os.path.join(dumpbase.MON, "c13_fluid.cpp"), NPARTS, flavour=flavour,
                        include_gen=False)]


def run(tier, seed, flavour="plain", prop="C13"):
    V = core.Verdict(prop, tier, seed)
    V.assumptions = [
        "binary128 arithmetic of libquadmath; monitors are built -O1 -ffp-contract=off without -ffast-math",
        "bound K = 4 in units of ulp_A(largest of the two terms of the formula and the result) + Delta, Delta = first-order "
        "change of the binary128 reference when every input (viscosities, six tensor slots) moves by one ulp of the argument "
        "type A, i.e. the sum of the one-at-a-time changes (cond.hpp takes their maximum: with that bound the unchanged "
        "library reaches 5.6 on StrainRate(stress) of the compressible model with mu_b >> mu, although each of its 9 "
        "operations is a correctly rounded IEEE operation, because the cancellation is shared by the three diagonal slots); "
        "compositions (round trips, linearity, cross precision, cross model type) use the sum of the bounds of their steps",
        "viscosities are positive (bulk viscosity zero or positive) and all values lie in the exponent range where no "
        "intermediate of either formula leaves the normal range of the argument type: 2^+-13 (float), 2^+-100 (double), "
        "2^+-1000 (long double) for the viscosities",
        "'zero' for Stress(strain), Strain(stress) and the one-argument constructor's bulk viscosity means == 0; the sign of "
        "zero is counted, not judged",
    ]
    od = core.run_dir(prop, tier)
    paths = core.build(targets(flavour))
    res = core.run_sharded([{"name": "c13_fluid", "binary": paths["c13_fluid"], "nshards": core.NCPU, "out": od,
                             "args": ["--seed", str(seed), "--tier", tier] + core.deep(tier, cases=320000) + core.boost(tier, flavour, cases=24000),
                             "env": core.SAN_ENV if flavour == "san" else None}], timeout=3600)
    V.absorb(res)
    m = core.merge_summaries(res)
    cnt = m["counters"]

    # observation matrix: model class x model type x argument type x function x path
    matrix = {}
    missing = []
    for c in CLASSES:
        for mt in TYPES:
            for at in TYPES:
                tag = "%s|M=%s|A=%s" % (c, mt, at)
                row = {}
                for fn in MEMBER_FUNCTIONS:
                    for path in ("direct", "virtual"):
                        n = cnt.get("obs|%s|%s|%s" % (tag, fn, path), 0)
                        row["%s %s" % (fn, path)] = n
                        if n == 0:
                            missing.append("%s %s %s" % (tag, fn, path))
                for fn in COMPOSITES:
                    n = cnt.get("obs|%s|%s|direct" % (tag, fn), 0)
                    row[fn] = n
                    if n == 0:
                        missing.append("%s %s" % (tag, fn))
                matrix[tag] = row
            for acc in ("DynamicViscosity()", "GetType()") + (("BulkDynamicViscosity()", "constructor(dynamic_viscosity)")
                                                              if c == "Compressible" else ()):
                n = cnt.get("obs|%s|M=%s|%s" % (c, mt, acc), 0)
                matrix.setdefault("%s|M=%s" % (c, mt), {})[acc] = n
                if n == 0:
                    missing.append("%s<%s> %s" % (c, mt, acc))
            for fn in ("Stress(strain_rate)", "StrainRate(stress)"):
                for pair in ("float,double", "float,long double", "double,long double"):
                    n = cnt.get("obs|%s|M=%s|cross-precision:%s|%s" % (c, mt, fn, pair), 0)
                    matrix["%s|M=%s" % (c, mt)]["cross-precision:%s %s" % (fn, pair)] = n
                    if n == 0:
                        missing.append("%s<%s> cross-precision:%s %s" % (c, mt, fn, pair))
        for fn in ("Stress(strain_rate)", "StrainRate(stress)"):
            for at in TYPES:
                if cnt.get("cross_model_type_compared|%s|%s|arg=%s" % (c, fn, at), 0) == 0:
                    missing.append("%s cross-model-type:%s arg=%s" % (c, fn, at))
    if missing:
        V.inconclusive.append("%d entries of the observation matrix got zero observations: %s" %
                              (len(missing), "; ".join(missing[:6])))

    def maxima(prefix):
        return {k[len(prefix):]: v for k, v in sorted(m["maxima"].items()) if k.startswith(prefix)}

    err = maxima("max_err|")
    V.coverage = {
        "evaluations": m["evaluations"], "distinct_nontrivial": m["distinct_nontrivial"],
        "rule": "evaluations = per-slot comparisons against the binary128 reference or bit-for-bit comparisons; distinct = "
                "(model class, model numeric type, argument numeric type, function, tensor class, bulk-viscosity class). "
                "Tensor classes: random symmetric, wide spread, pure shear (off-diagonal and diagonal), pure dilatation, "
                "trace-free, single slot, small integers, zero; viscosities log-uniform, powers of two, small integers; "
                "bulk viscosity: zero, one-argument constructor, comparable, independent, << and >> the shear viscosity",
        "samples": m["samples"],
        "cases": cnt.get("cases", 0),
        "case_kinds": {k: v for k, v in sorted(cnt.items()) if k.startswith("cases_")},
        "observations": matrix,
        "max_error_in_units_of_ulp_plus_delta (bound 4)": err,
        "max_error_overall": max(err.values()) if err else None,
        "max_error_plain_ulps (no conditioning term; shows how much of the bound is Delta)": maxima("max_plain_ulps|"),
        "cross_model_type": {k: v for k, v in sorted(cnt.items()) if k.startswith("cross_model_type_")},
        "homogeneity_skipped_near_subnormal": cnt.get("homogeneity_skipped_near_subnormal", 0),
        "negative_zero_results": cnt.get("negative_zero_results", 0),
        "negative_zero_bulk_viscosity": cnt.get("negative_zero_bulk_viscosity", 0),
        "lists": m["lists"],
    }
    return V.finish()


def replay(path, seed):
    return run("quick", seed)
