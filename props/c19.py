"""C19 — quantities work during static initialisation.  Generated programs, two compilers, -O0/-O2,
1-3 translation units and permuted link order; the same expression is evaluated before and inside main()."""
import concurrent.futures as cf
import hashlib
import itertools
import os
import re
import subprocess
import threading

from gen import c19 as G
from vlib import core

COMPILERS = [("g++", core.GXX), ("clang++", core.CLANGXX)]


def cache_dir():
    d = os.path.join(core.tree_dir(), "c19")
    os.makedirs(d, exist_ok=True)
    return d


def sh(cmd, timeout=600, env=None):
    try:
        p = subprocess.run(cmd, stdout=subprocess.PIPE, stderr=subprocess.PIPE, timeout=timeout, env=env)
        return p.returncode, p.stdout.decode(errors="replace"), p.stderr.decode(errors="replace")
    except subprocess.TimeoutExpired:
        return -999, "", "timeout"


_locks = {}
_locks_guard = threading.Lock()


def lock_for(key):
    with _locks_guard:
        return _locks.setdefault(key, threading.Lock())


def compile_tu(cxx, opt, src_text, tag):
    h = hashlib.sha256((cxx + opt + src_text).encode()).hexdigest()[:16]
    base = os.path.join(cache_dir(), "%s-%s" % (tag, h))
    obj = base + ".o"
    with lock_for(obj):
        return _compile_tu(cxx, opt, src_text, base, obj)


def _compile_tu(cxx, opt, src_text, base, obj):
    if not os.path.exists(obj):
        with open(base + ".cpp", "w") as f:
            f.write(src_text)
        rc, so, se = sh([cxx, "-std=c++17", opt, "-w", "-I", core.INCLUDE, "-I", core.gen_dir(), "-c", base + ".cpp", "-o", obj + ".tmp"])
        if rc != 0:
            return None, se
        os.replace(obj + ".tmp", obj)
    return obj, ""


def link(cxx, objs, tag):
    h = hashlib.sha256((cxx + "|".join(objs)).encode()).hexdigest()[:16]
    exe = os.path.join(cache_dir(), "%s-%s.exe" % (tag, h))
    with lock_for(exe):
        return _link(cxx, objs, exe)


def _link(cxx, objs, exe):
    if not os.path.exists(exe):
        rc, so, se = sh([cxx] + objs + ["-o", exe + ".tmp"])
        if rc != 0:
            return None, se
        os.replace(exe + ".tmp", exe)
    return exe, ""


def run_program(exe):
    rc, so, se = sh([exe], timeout=120)
    results = []
    for line in so.splitlines():
        if line.startswith("RESULT\t"):
            _, fac, tn, eq, st, mn = (line.split("\t") + [""] * 6)[:6]
            results.append({"facility": fac, "T": tn, "equal": eq == "1", "static": st, "main": mn})
    probes = {}
    for line in se.splitlines():
        if line.startswith("PROBE "):
            kv = dict(m.groups() for m in re.finditer(r"([A-Za-z<>]+(?: double)?)=(\w+)", line[6:]))
            tu = kv.pop("tu", "?")
            probes[tu] = {k: int(v) for k, v in kv.items() if v.isdigit()}
    return rc, results, probes, se


def job_single(fac, cname, cxx, opt, holder="static"):
    src = G.facility_program(fac, holder)
    obj, err = compile_tu(cxx, opt, src, "f-" + fac[0])
    if obj is None:
        return {"kind": "compile-error", "stderr": err[-2500:]}
    exe, err = link(cxx, [obj], "f-" + fac[0])
    if exe is None:
        return {"kind": "link-error", "stderr": err[-2500:]}
    rc, results, probes, se = run_program(exe)
    return {"kind": "ran", "rc": rc, "results": results, "probes": probes, "stderr": se[-1500:]}


def job_multi(tus, order, cname, cxx, opt, tag):
    objs = []
    for i, facs in enumerate(tus):
        obj, err = compile_tu(cxx, opt, G.tu_source(i, facs, False), "%s-tu%d" % (tag, i))
        if obj is None:
            return {"kind": "compile-error", "stderr": err[-2500:]}
        objs.append(obj)
    mobj, err = compile_tu(cxx, opt, G.main_source(len(tus)), tag + "-main")
    if mobj is None:
        return {"kind": "compile-error", "stderr": err[-2500:]}
    ordered = [objs[i] if i >= 0 else mobj for i in order]
    exe, err = link(cxx, ordered, tag)
    if exe is None:
        return {"kind": "link-error", "stderr": err[-2500:]}
    rc, results, probes, se = run_program(exe)
    return {"kind": "ran", "rc": rc, "results": results, "probes": probes, "stderr": se[-1500:]}


def constant_init_rows():
    """(quantity, unit type, enumerator) for every declared unit, from what the running library reports: the first scalar
    quantity of each unit type stands for the type.  Returns (rows, unit types without a scalar quantity, crash)."""
    from props import dumpbase
    d, crash = dumpbase.get_dump()
    if crash:
        return [], [], crash
    scalar = {}
    for q in d["quantities"]:
        m = re.search(r"E = PhQ::Unit::(\w+);", q.get("unit_type_pretty") or "")
        if m and q["n"] == 1:
            scalar.setdefault(m.group(1), q["name"])
    rows, missing = [], []
    for u in d["unit_types"]:
        if u["name"] not in scalar:
            missing.append(u["name"])
            continue
        for e in u["enumerators"]:
            rows.append((scalar[u["name"]], u["name"], e["id"]))
    return rows, missing, None


def job_constant_init(rows, cname, cxx, opt):
    objs = []
    for i, (tname, suf) in enumerate(G.NUMERIC):
        obj, err = compile_tu(cxx, opt, G.constant_init_tu(i, tname, suf, rows), "ci-%s" % suf)
        if obj is None:
            return {"kind": "compile-error", "stderr": err[-2500:]}
        objs.append(obj)
    mobj, err = compile_tu(cxx, opt, G.constant_init_main(len(objs)), "ci-main")
    if mobj is None:
        return {"kind": "compile-error", "stderr": err[-2500:]}
    exe, err = link(cxx, objs + [mobj], "ci")
    if exe is None:
        return {"kind": "link-error", "stderr": err[-2500:]}
    rc, so, se = sh([exe], timeout=300)
    out = []
    for line in so.splitlines():
        if line.startswith("CI\t"):
            _, q, ut, en, tn, eq, early, late = (line.split("\t") + [""] * 8)[:8]
            out.append({"quantity": q, "unit_type": ut, "unit": en, "T": tn, "equal": eq == "1", "early": early, "late": late})
    return {"kind": "ran", "rc": rc, "ci": out, "stderr": se[-1500:]}


def run(tier, seed, flavour="plain"):
    V = core.Verdict("C19", tier, seed)
    V.assumptions = [
        "the dynamic-initialisation orders observed are those g++ 12 and clang++ 14 produce on this platform at the optimisation "
        "levels run; user objects are defined after the includes, as the property states",
        "a facility 'works' when the expression evaluated during static initialisation equals, bit for bit, the same expression "
        "evaluated inside main()",
    ]
    opts = ["-O0", "-O2"] if tier == "quick" else ["-O0", "-O1", "-O2", "-O3"]
    byname = {f[0]: f for f in G.FACILITIES}
    nodisp = [f for f in G.FACILITIES if not f[3]]
    disp = [f for f in G.FACILITIES if f[3]]
    multi_plain = [[byname["construct-standard-unit"], byname["print-standard"], byname["abbreviation"]],
                   [byname["parse-enumeration"], byname["consistent-unit"], byname["create-static"]],
                   [byname["comparison"], byname["arithmetic"], byname["stream"], byname["related-unit-system"]]]
    multi_disp = [[byname["construct-nonstandard-unit"], byname["print-in-unit"]],
                  [byname["convert-runtime-vector"], byname["construct-celsius"]],
                  [byname["value-in-unit"], byname["abbreviation"]]]
    # every translation unit of this program includes every unit header: a table that stops being `inline` becomes a
    # duplicate definition at link time, and any table is then initialised in three translation units
    def with_all_units(f):
        return (f[0], list(f[1]) + ["@allu.hpp"], f[2], f[3])
    multi_all = [[with_all_units(byname["abbreviation"]), with_all_units(byname["print-standard"])],
                 [with_all_units(byname["parse-enumeration"]), with_all_units(byname["all-unit-type-tables"])],
                 [with_all_units(byname["consistent-unit"]), with_all_units(byname["related-unit-system"])]]
    perms = list(itertools.permutations([0, 1, 2, -1]))  # -1 is the TU with main()
    if tier == "quick":
        perms = [perms[0], perms[-1], perms[9]]
    jobs = []
    for cname, cxx in COMPILERS:
        for opt in opts:
            for fac in G.FACILITIES:
                # the two facilities that sweep whole type lists cost minutes to compile: one optimisation level in the quick tier
                if tier == "quick" and fac[0].startswith("all-") and opt != "-O0":
                    continue
                jobs.append(("single", fac[0], fac[3], cname, opt, (job_single, (fac, cname, cxx, opt))))
                # the same object declared as an inline variable (partially ordered initialisation): one level in the quick tier
                if not fac[0].startswith("all-") and (tier == "thorough" or opt == "-O2"):
                    jobs.append(("single-inline", fac[0], fac[3], cname, opt, (job_single, (fac, cname, cxx, opt, "inline"))))
            for order in perms:
                jobs.append(("multi", "multi-tu order=%s" % (list(order),), False, cname, opt,
                             (job_multi, (multi_plain, order, cname, cxx, opt, "mp"))))
                if cname == "clang++":
                    jobs.append(("multi", "multi-tu-dispatch order=%s" % (list(order),), True, cname, opt,
                                 (job_multi, (multi_disp, order, cname, cxx, opt, "md"))))
                if opt == "-O0" and (tier == "thorough" or order == perms[0]):
                    jobs.append(("multi", "multi-tu-all-units order=%s" % (list(order),), False, cname, opt,
                                 (job_multi, (multi_all, order, cname, cxx, opt, "ma"))))
    ci_rows, ci_missing, crash = constant_init_rows()
    if crash:
        V.add_violation("crash|dump|" + core.classify_crash(crash["rc"], crash["stderr_tail"]), crash)
    for ut in ci_missing:
        V.inconclusive.append("unit type %s has no scalar quantity to create at compile time" % ut)
    ci_jobs = []
    if ci_rows:
        for cname, cxx in COMPILERS:
            for opt in opts:
                ci_jobs.append((cname, opt, (job_constant_init, (ci_rows, cname, cxx, opt))))
    evals = 0
    distinct = set()
    samples = []
    probe_matrix = {}
    programs = 0
    ci_seen = {}
    with cf.ThreadPoolExecutor(max_workers=core.NCPU) as ex:
        futs = [(j, ex.submit(j[5][0], *j[5][1])) for j in jobs]
        ci_futs = [(j, ex.submit(j[2][0], *j[2][1])) for j in ci_jobs]
        for (cname, opt, _), fut in ci_futs:
            r = fut.result()
            programs += 1
            base = "C19|%s|constant-initialisation" % cname
            if r["kind"] != "ran":
                V.add_violation(base + "|" + r["kind"], {"optimisation": opt, "stderr": r["stderr"]})
                continue
            if r["rc"] not in (0, 3) or len(r["ci"]) != 3 * len(ci_rows):
                V.add_violation(base, {"optimisation": opt, "what": "terminated before main() finished", "rc": r["rc"],
                                       "lines": len(r["ci"]), "expected": 3 * len(ci_rows), "stderr": r["stderr"]})
                continue
            for c in r["ci"]:
                evals += 1
                distinct.add((cname, opt, "ci", c["unit_type"], c["unit"], c["T"]))
                ci_seen["%s %s" % (cname, opt)] = ci_seen.get("%s %s" % (cname, opt), 0) + 1
                if not c["equal"]:
                    V.add_violation("%s|type=%s|unit=%s" % (base, c["unit_type"], c["unit"]),
                                    {"optimisation": opt, "numeric_type": c["T"], "quantity": c["quantity"],
                                     "read_by_an_earlier_initialiser": c["early"], "inside_main": c["late"],
                                     "what": "const Q x = Q::Create<unit>(1.25) at namespace scope was not constant-initialised: an "
                                             "initialiser that runs earlier read another value than main() does"})
        for (kind, name, uses_dispatch, cname, opt, _), fut in futs:
            r = fut.result()
            programs += 1
            facname = name.split(" ")[0]
            inline = "inline-variable|" if kind == "single-inline" else ""
            key = "C19|%s|%s%sfacility=%s" % (cname, "dispatch|" if uses_dispatch else "", inline, facname)
            if r["kind"] != "ran":
                V.add_violation(key + "|" + r["kind"], {"optimisation": opt, "program": name, "stderr": r["stderr"]})
                continue
            for tu, pm in r["probes"].items():
                probe_matrix.setdefault("%s %s" % (cname, opt), {}).update({"%s" % k: v for k, v in pm.items()})
            if kind.startswith("single") and len(r["results"]) != 3:
                # died before or during main: attribute to the facility
                V.add_violation(key, {"optimisation": opt, "program": name, "what": "terminated before main() finished",
                                      "rc": r["rc"], "stderr": r["stderr"], "results_seen": r["results"]})
                evals += 1
                continue
            if kind == "multi" and (r["rc"] not in (0, 3) or not r["results"]):
                V.add_violation(key, {"optimisation": opt, "program": name, "what": "terminated before main() finished",
                                      "rc": r["rc"], "stderr": r["stderr"]})
                evals += 1
                continue
            for res in r["results"]:
                evals += 1
                distinct.add((cname, opt, name, res["facility"], res["T"]))
                if not res["equal"]:
                    k2 = "C19|%s|%s%sfacility=%s" % (cname, "dispatch|" if byname[res["facility"]][3] else "", inline, res["facility"])
                    V.add_violation(k2, {"optimisation": opt, "program": name, "numeric_type": res["T"],
                                         "during_static_init": res["static"], "inside_main": res["main"]})
                if len(samples) < 6 and res["facility"] not in [s["facility"] for s in samples]:
                    samples.append({"compiler": cname, "optimisation": opt, **res})
    V.coverage = {
        "evaluations": evals, "distinct_nontrivial": len(distinct),
        "rule": "one generated program per facility (3 numeric types each) x {g++, clang++} x optimisation levels, plus 3-TU "
                "programs in permuted link orders; an evaluation = one (facility, numeric type) compared between static "
                "initialisation and main(); distinct = (compiler, optimisation, program, facility, numeric type)",
        "samples": samples, "programs_run": programs, "facilities": [f[0] for f in G.FACILITIES],
        "facilities_using_runtime_conversion_dispatch": [f[0] for f in disp],
        "optimisation_levels": opts, "link_orders": len(perms),
        "tables_populated_when_user_initialisation_starts": probe_matrix,
        "constant_initialisation": {
            "rule": "namespace-scope `const Q late = Q::Create<unit>(1.25)` for every declared unit (first scalar quantity of each unit "
                    "type) x 3 numeric types, read by an ordinary variable defined before it; the value read must be the value main() reads",
            "units": len(ci_rows), "objects_compared_per_program": ci_seen,
        },
    }
    return V.finish()


def replay(path, seed):
    return run("quick", seed)
