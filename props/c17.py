"""C17 — quantities are bare numbers in memory."""
from props import pertypebase
from vlib import core

targets = pertypebase.targets


def run(tier, seed, flavour="plain"):
    V = core.Verdict("C17", tier, seed)
    V.assumptions = [
        "x86-64 long double: 10 value bytes in a 16-byte slot; the 6 padding bytes inside long double itself are not the library's",
        "static facts (sizeof, alignof, trivially copyable, standard layout) are read from the compiler's type traits at run time",
    ]
    res = pertypebase.run_pertype("C17", tier, seed, flavour)
    V.absorb(res)
    m = core.merge_summaries(res)
    types = {t: m["counters"].get("c17_types_" + t, 0) for t in ("float", "double", "long double")}
    if min(m["counters"].get("c17_shape_component_probes_" + t, 0) for t in types) < 1:
        V.inconclusive.append("the setter/accessor probes of the four value shapes did not run")
    if min(types.values()) < 92:
        V.inconclusive.append("fewer than 92 quantity types observed: %s" % types)
    V.coverage = {
        "evaluations": m["evaluations"], "distinct_nontrivial": m["distinct_nontrivial"],
        "rule": "all 92 quantity types x 3 numeric types (276 instantiations, exhaustive): five layout facts each; byte-pattern probes "
                "(0xA5 fill, placement construction, every value byte of every slot must equal the stored number), memcpy of arrays "
                "of quantities to arrays of numbers and back, Zero() value bytes, SetValue/MutableValue; for the four value shapes every named component setter and mutable reference (including the symmetric aliases yx, zx, zy) must write exactly the slot its accessor reads. distinct = (type, numeric type)",
        "samples": m["samples"], "exhaustive": True, "instantiations": types,
        "zero_checked": {t: m["counters"].get("c17_zero_" + t, 0) for t in types},
        "setvalue_probes": m["counters"].get("c17_setvalue_probes", 0), "mutablevalue_probes": m["counters"].get("c17_mutablevalue_probes", 0),
        "setvalue_onto_equal_comparing_value_probes(signed zeros)": m["counters"].get("c17_setvalue_signed_zero_probes", 0),
        "mutablevalue_assigned_from_array_probes": m["counters"].get("c17_mutablevalue_array_probes", 0),
        "mutablevalue_assigned_from_symmetric_tensor_probes(9-number quantities)": m["counters"].get("c17_mutablevalue_symmetric_probes", 0),
        "types_without_Zero": m["lists"].get("c17_types_without_Zero", []),
        "shape_component_probes": {t: m["counters"].get("c17_shape_component_probes_" + t, 0) for t in types},
    }
    return V.finish()


def replay(path, seed):
    return run("quick", seed)
