"""C01 — every unit converts by the factor its own symbol implies, to a few ulps."""
import os

from props import dumpbase
from vlib import core
from vlib import symbols as S

NPARTS = 12


def targets(flavour="plain"):
    return [core.parted("c01_convert", os.path.join(dumpbase.MON, "c01_convert.cpp"), NPARTS, flavour=flavour)]


def write_oracle(d, path, V=None):
    """One line per unit: type value pi_power factor offset — derived from the unit's own abbreviation."""
    n = 0
    skipped = []
    with open(path, "w") as f:
        for u in d["unit_types"]:
            dims = tuple(u["dimensions"])
            for e in u["enumerators"]:
                if not e.get("has_abbreviation"):
                    skipped.append("%s::%s (no abbreviation)" % (u["name"], e["id"]))
                    continue
                try:
                    m, _dims_agree = dumpbase.choose_meaning(e["abbreviation"], dims)
                except S.ParseError as ex:
                    skipped.append("%s::%s (%s)" % (u["name"], e["id"], ex))
                    continue
                if m is None:
                    skipped.append("%s::%s (no unique meaning of %r with the type's dimensions)" % (u["name"], e["id"], e["abbreviation"]))
                    continue
                off = S.temperature_offset(e["abbreviation"]) if u["name"] == "Temperature" else None
                f.write("%s %d %d %s %s\n" % (u["name"], e["value"], m.pi, S.frac_to_decimal(m.mag),
                                              S.frac_to_decimal(off) if off else "0"))
                n += 1
    return n, skipped


def run(tier, seed, flavour="plain", prop="C01"):
    V = core.Verdict(prop, tier, seed)
    V.assumptions = [
        "exact SI magnitudes of the unit atoms in vlib/symbols.py (thermochemical calorie 4.184 J, IT BTU 1055.05585262 J, "
        "CODATA-2019 elementary charge and Avogadro constant, kiB = 8*1024 bit)",
        "binary128 arithmetic of libquadmath; monitors are built -O1 -ffp-contract=off without -ffast-math",
        "bound: 16 ulps of the numeric type at the scale of the largest term of the affine expression",
    ]
    od = core.run_dir(prop, tier)
    paths = core.build(targets(flavour) + [dumpbase.dump_target()])
    d, crash = dumpbase.get_dump()
    if crash:
        V.add_violation("crash|dump|" + core.classify_crash(crash["rc"], crash["stderr_tail"]), crash)
        return V.finish()
    opath = os.path.join(od, "oracle.txt")
    n, skipped = write_oracle(d, opath)
    n_units = sum(len(u["enumerators"]) for u in d["unit_types"])
    res = core.run_sharded([{"name": "c01_convert", "binary": paths["c01_convert"], "nshards": core.NCPU, "out": od,
                             "args": ["--seed", str(seed), "--tier", tier, "--oracle", opath] + core.deep(tier, values=12000) + core.boost(tier, flavour, values=1024),
                             "env": core.SAN_ENV if flavour == "san" else None}], timeout=3600)
    V.absorb(res)
    m = core.merge_summaries(res)
    want_pairs = sum(len(u["enumerators"]) ** 2 for u in d["unit_types"])
    got = {t: m["counters"].get("pairs_" + t, 0) for t in ("float", "double", "long double")}
    for t, g in got.items():
        missing = len(m["lists"].get("pairs_skipped_missing_dispatch", []))
        if g + missing < want_pairs and not skipped:
            V.inconclusive.append("only %d of %d ordered unit pairs were exercised in %s" % (g, want_pairs, t))
    V.coverage = {
        "evaluations": m["evaluations"], "distinct_nontrivial": m["distinct_nontrivial"],
        "rule": "all ordered pairs of declared units within each unit type x {float,double,long double} x generated values "
                "(log-uniform over the safe exponent range, both signs, +-0, powers of two, small integers, the suite's literal); "
                "distinct = (type, from, to, numeric type, value class) with from != to and x != 0",
        "samples": m["samples"],
        "units_with_oracle": n, "units_declared": n_units, "units_skipped": skipped[:40],
        "ordered_pairs_expected": want_pairs, "ordered_pairs_exercised": got,
        "static_single_steps": {t: m["counters"].get("static_units_" + t, 0) for t in ("float", "double", "long double")},
        "max_error_ulps": m["maxima"], "skipped_out_of_range": m["counters"].get("skipped_out_of_range", 0),
        "lists": m["lists"],
    }
    if skipped:
        V.inconclusive.append("%d units have no oracle: %s" % (len(skipped), "; ".join(skipped[:5])))
    return V.finish()


def replay(path, seed):
    return run("quick", seed)
