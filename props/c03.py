"""C03 — every relation between quantities is dimensionally homogeneous."""
from props import relbase
from vlib import core

targets = relbase.targets


def run(tier, seed, flavour="plain"):
    V = core.Verdict("C03", tier, seed)
    V.assumptions = [
        "rescaling factors are powers of 2^6 per base unit, so that +, -, *, /, sqrt and cbrt commute with the rescaling exactly and "
        "a homogeneous formula reproduces the rescaled result bit for bit (no tolerance)",
        "the dimension set used for each type is the one the type itself declares (tied to the units by C06)",
        "constructors and member functions come from a regex harvest of the headers, each confirmed by a detection idiom; operators "
        "come from exhaustive detection over all ordered pairs",
    ]
    res = relbase.run_rel("C03", tier, seed, flavour)
    V.absorb(res)
    m = core.merge_summaries(res)
    c = m["counters"]
    T = ("float", "double", "long double")
    ops = {t: c.get("c03_operator_instances_" + t, 0) for t in T}
    ctors = {t: c.get("c03_constructors_" + t, 0) for t in T}
    mem = {t: c.get("c03_members_" + t, 0) for t in T}
    unconf = m["lists"].get("harvested_but_not_confirmed", [])
    if min(ops.values()) < 400:
        V.inconclusive.append("fewer than 400 operator instances per numeric type: %s" % ops)
    if c.get("harvest_ctors", 0) and min(ctors.values()) + len(unconf) < c.get("harvest_ctors", 0):
        V.inconclusive.append("constructors exercised %s < harvested %s" % (ctors, c.get("harvest_ctors")))
    if min(ctors.values()) < 250 or min(mem.values()) < 100:
        V.inconclusive.append("too few constructors/members exercised: %s %s" % (ctors, mem))
    V.coverage = {
        "evaluations": m["evaluations"], "distinct_nontrivial": m["distinct_nontrivial"],
        "rule": "each relation (binary operator instance, harvested 1..9-argument constructor, harvested member function) is run on "
                "random operands of both signs and again after rescaling the seven base units by independent factors 2^(6k), k in "
                "{-1,0,1}; the second result must equal the first one scaled by the factor its declared dimension set predicts, bit "
                "for bit; for operators the declared dimension algebra is also checked. distinct = (relation, numeric type)",
        "samples": m["samples"],
        "operator_instances": ops, "constructors": ctors, "member_functions": mem,
        "harvest": {k: v for k, v in c.items() if k.startswith("harvest_")},
        "harvested_but_not_confirmed": unconf,
        "skipped_out_of_range": c.get("c03_skipped_out_of_range", 0),
    }
    return V.finish()


def replay(path, seed):
    return run("quick", seed)
