"""C06 — declared dimension sets equal the dimensions of the units themselves."""
import os
import re

from props import dumpbase
from vlib import core
from vlib import symbols as S


def targets(flavour="plain"):
    return [core.Target("c06_dims", [os.path.join(dumpbase.MON, "c06_dims.cpp")], flavour=flavour, include_gen=False)]


def run(tier, seed, flavour="plain"):
    V = core.Verdict("C06", tier, seed)
    V.assumptions = [
        "the atom table of vlib/symbols.py gives the correct base-dimension vector of every unit atom",
        "compiler reflection (__PRETTY_FUNCTION__) lists exactly the declared enumerators",
        "Θ is the printed symbol of the temperature dimension (property text)",
    ]
    od = core.run_dir("C06", tier)
    paths = core.build(targets(flavour) + [dumpbase.dump_target()])
    d, crash = dumpbase.get_dump()
    if crash:
        V.add_violation("crash|dump|" + core.classify_crash(crash["rc"], crash["stderr_tail"]), crash)
        return V.finish()
    evals = 0
    distinct = set()
    samples = []
    ambiguous = 0
    spellings_checked = spellings_not_expanded = 0
    # (1) every unit symbol expands to the dimension vector declared for its type
    for u in d["unit_types"]:
        dims = tuple(u["dimensions"])
        for e in u["enumerators"]:
            evals += 1
            if not e.get("has_abbreviation"):
                continue  # C08's business; nothing to expand
            a = e["abbreviation"]
            try:
                ms = S.meanings(a)
            except S.ParseError as ex:
                V.inconclusive.append("cannot expand symbol %r of %s::%s: %s" % (a, u["name"], e["id"], ex))
                continue
            alld = sorted({m.dims for m in ms})
            if len(alld) > 1:
                ambiguous += 1
            if dims not in alld:
                V.add_violation("C06|unit-type=%s|unit=%s|symbol-dimensions" % (u["name"], e["id"]),
                                {"symbol": a, "symbol_dimensions": [list(x) for x in alld], "declared": list(dims)})
            distinct.add((u["name"], e["id"]))
            if len(samples) < 4 and any(dims):
                samples.append({"unit_type": u["name"], "unit": e["id"], "symbol": a,
                                "expanded_dimensions": [list(x) for x in alld], "declared": list(dims)})
        # every other symbol the type accepts (its spellings table) denotes a unit of the same dimensions; a spelling the
        # independent grammar cannot expand is C08's business (it reports it), not counted here
        for sp in u.get("spellings", []):
            try:
                ms = S.meanings(sp["spelling"])
            except S.ParseError:
                spellings_not_expanded += 1
                continue
            evals += 1
            spellings_checked += 1
            alld = sorted({m.dims for m in ms})
            if dims not in alld:
                V.add_violation("C06|unit-type=%s|spelling=%s|symbol-dimensions" % (u["name"], sp["spelling"]),
                                {"symbol": sp["spelling"], "symbol_dimensions": [list(x) for x in alld], "declared": list(dims),
                                 "parses_to_enumerator_value": sp.get("parsed")})
        # printed form of the declared set against the independent formatter
        evals += 1
        want = model_print(dims)
        if u["dimensions_print"] != want:
            V.add_violation("C06|unit-type=%s|print" % u["name"], {"got": u["dimensions_print"], "want": want})
    # (2) every quantity reports the vector of its unit type (zero if dimensionless)
    udims = {u["name"]: tuple(u["dimensions"]) for u in d["unit_types"]}
    for q in d["quantities"]:
        evals += 1
        qd = tuple(q["dimensions"])
        if q["unit_type_pretty"] is None:
            want = (0,) * 7
            ut = None
        else:
            m = re.search(r"E = PhQ::Unit::(\w+)", q["unit_type_pretty"]) or re.search(r"PhQ::Unit::(\w+)", q["unit_type_pretty"])
            ut = m.group(1) if m else None
            want = udims.get(ut)
            if want is None:
                V.inconclusive.append("cannot identify unit type of %s from %r" % (q["name"], q["unit_type_pretty"]))
                continue
        if qd != want:
            V.add_violation("C06|quantity=%s|dimensions" % q["name"], {"reported": list(qd), "unit_type": ut, "want": list(want)})
        if not q["dims_same_across_types"]:
            V.add_violation("C06|quantity=%s|dimensions-differ-by-numeric-type" % q["name"], {})
        distinct.add(("Q", q["name"]))
    evals += 1
    if d["dimensionless_print"] != "1":
        V.add_violation("C06|dimensionless|print", {"got": d["dimensionless_print"]})
    # (3) printing / ordering / hash on exponent boxes: the C++ monitor
    res = core.run_sharded([{"name": "c06_dims", "binary": paths["c06_dims"], "nshards": core.NCPU, "out": od,
                             "args": ["--seed", str(seed), "--tier", tier] + core.deep(tier, pairs=1000000000) + core.boost(tier, flavour, pairs=16000000),
                             "env": core.SAN_ENV if flavour == "san" else None}])
    V.absorb(res)
    m = core.merge_summaries(res)
    n_units = sum(len(u["enumerators"]) for u in d["unit_types"])
    V.coverage = {
        "evaluations": evals + m["evaluations"],
        "distinct_nontrivial": len(distinct) + m["distinct_nontrivial"],
        "rule": "table half: one case per (unit type, unit) whose symbol was expanded by the independent grammar and per quantity "
                "type, exhaustive over the reflected enumerators; box half: every exponent tuple of the box printed, distinct = "
                "tuples printed + (deciding cascade position x outcome) classes of compared pairs",
        "samples": samples + m["samples"][:4],
        "exhaustive": True,
        "exhaustive_scope": "all %d units of %d unit types and all %d quantity types; printing over the whole box "
                            "{-1..1}^7 (quick) / {-2..3}^7 (thorough); pairs are sampled" % (n_units, len(d["unit_types"]), len(d["quantities"])),
        "units_checked": n_units, "unit_types": len(d["unit_types"]), "quantities": len(d["quantities"]),
        "symbols_with_more_than_one_possible_dimension": ambiguous,
        "accepted_spellings_expanded_and_compared": spellings_checked, "accepted_spellings_the_grammar_cannot_expand": spellings_not_expanded,
        "box_counters": m["counters"],
    }
    if n_units < 2 or len(d["quantities"]) < 2:
        V.inconclusive.append("dump lists almost nothing")
    return V.finish()


def model_print(t):
    sym = ["T", "L", "M", "I", "Θ", "N", "J"]
    parts = []
    for s, e in zip(sym, t):
        if e == 0:
            continue
        if e == 1:
            parts.append(s)
        elif e > 1:
            parts.append("%s^%d" % (s, e))
        else:
            parts.append("%s^(%d)" % (s, e))
    return "·".join(parts) if parts else "1"


def replay(path, seed):
    return run("quick", seed)
