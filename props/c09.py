"""C09 — PlanarVector, Vector, SymmetricDyad and Dyad implement Euclidean tensor algebra."""
import os

from vlib import core

MON = os.path.join(core.VERIF, "mon")
NPARTS = 12  # 3 numeric types x 4 groups of operations
TYPES = ("float", "double", "long double")
CLASSES = ("basis", "grid", "int", "real")

SHAPES = ("PlanarVector", "Vector", "SymmetricDyad", "Dyad")


def _linear(n):
    return [n + "+" + n, n + "-" + n, n + "*scalar", "scalar*" + n, n + "/scalar", n + "*int", "int*" + n,
            n + "+=" + n, n + "-=" + n, n + "*=scalar", n + "/=scalar"]


# Every operation the monitor is meant to exercise (the declared overloads and members of the four headers).
# The monitor registers its own list as well; both must agree and every entry must have been observed.
EXPECTED_OPS = (
    ["Dyad*Dyad", "SymmetricDyad*SymmetricDyad", "SymmetricDyad*Dyad", "Dyad*SymmetricDyad",
     "Dyad*Vector", "Dyad*PlanarVector", "SymmetricDyad*Vector", "SymmetricDyad*PlanarVector"]
    + [f % (a, b) for f in ("%s.Dot(%s)", "%s.Cross(%s)", "%s.Dyadic(%s)")
       for a, b in (("Vector", "Vector"), ("PlanarVector", "PlanarVector"))]
    + [f for op in ("Dot", "Cross", "Dyadic")
       for f in ("Vector.%s(Vector(PlanarVector))" % op, "Vector(PlanarVector).%s(Vector)" % op)]
    + ["Vector.MagnitudeSquared", "PlanarVector.MagnitudeSquared", "Vector.Magnitude", "PlanarVector.Magnitude",
       "Vector(PlanarVector)", "PlanarVector(Vector)", "Dyad(SymmetricDyad)", "Dyad=SymmetricDyad", "Dyad.IsSymmetric"]
    + ["%s.%s" % (s, m) for s in ("Dyad", "SymmetricDyad")
       for m in ("Trace", "Determinant", "Transpose", "Cofactors", "Adjugate", "Inverse")]
    + ["%s.Inverse*%s" % (s, s) for s in ("Dyad", "SymmetricDyad")]
    + ["%s*%s.Inverse" % (s, s) for s in ("Dyad", "SymmetricDyad")]
    + [op for s in SHAPES for op in _linear(s)]
)
# operations with a symmetric or planar operand that are also run through the general types
EXPECTED_EMBED = (
    ["SymmetricDyad*SymmetricDyad", "SymmetricDyad*Dyad", "Dyad*SymmetricDyad", "Dyad*PlanarVector",
     "SymmetricDyad*Vector", "SymmetricDyad*PlanarVector", "PlanarVector.Dot(PlanarVector)",
     "PlanarVector.Cross(PlanarVector)", "PlanarVector.Dyadic(PlanarVector)", "PlanarVector.MagnitudeSquared"]
    + ["SymmetricDyad.%s" % m for m in ("Trace", "Determinant", "Transpose", "Cofactors", "Adjugate", "Inverse")]
    + [op for s in ("PlanarVector", "SymmetricDyad") for op in _linear(s) if "int" not in op]
)


def targets(flavour="plain"):
    return [core.parted("c09_tensor", os.path.join(MON, "c09_tensor.cpp"), NPARTS, flavour=flavour, include_gen=False,
                        extra_deps=[os.path.join(MON, "c09_tensor_ops.inc")])]


def run(tier, seed, flavour="plain", prop="C09"):
    V = core.Verdict(prop, tier, seed)
    V.assumptions = [
        "binary128 arithmetic of libquadmath and exact int64 arithmetic; monitors built -O1 -ffp-contract=off without -ffast-math",
        "integer workloads keep |component| <= 2^6 (float), 2^15 (double), 2^18 (long double) so that every intermediate of every "
        "formula is an exactly representable integer: results must be exactly equal to the int64 reference",
        "real workloads: |got - exact| <= 4*(ulp_T(exact) + Delta), Delta = largest change of the binary128 reference when one "
        "input moves by one ulp; where the monomials of a formula cancel among themselves (Determinant: a_ij * cofactor with the "
        "cofactor itself a small difference of large products) Delta does not see the size of the intermediate products, and a "
        "result is also accepted within the a-priori forward error bound of the textbook formula evaluated in T, "
        "n*u/(1-n*u) * sum|monomials| with u = eps_T/2 and n = roundings on the longest monomial path (1 for + - scalar* scalar/ "
        "and Dyadic, 2 for Cross/Cofactors/Adjugate/Trace/planar products, 3 for 3-term products, 5 for Determinant); "
        "how often that was needed is reported; operations that copy components (Transpose, embedding constructors) must be exact",
        "Magnitude within 2 ulps of sqrt of the exact sum of squares",
        "inverse: presence decided exactly on integer matrices; |inverse*original - I| and |original*inverse - I| <= 16*kappa*eps_T "
        "entrywise for kappa_inf <= 1e4 measured in binary128, the rest counted as skipped; kappa does not see how close the two "
        "smaller singular values are to each other (relative error of the determinant formula ~ eps*sigma1^2/(sigma2*sigma3)), so an "
        "entry is also accepted within the a-priori forward error bound of adjugate/determinant evaluated in T (computed in "
        "binary128 from sum|monomials|); real matrices whose determinant formula loses more than half of its value are skipped; "
        "both events are counted in the evidence",
        "members that take Direction / PlanarDirection / Angle are defined in other headers and belong to C10 / C11",
    ]
    od = core.run_dir(prop, tier)
    paths = core.build(targets(flavour))
    res = core.run_sharded([{"name": "c09_tensor", "binary": paths["c09_tensor"], "nshards": core.NCPU, "out": od,
                             "args": ["--seed", str(seed), "--tier", tier] + core.deep(tier, nint=2400000, nreal=400000) + core.boost(tier, flavour, nint=64000, nreal=16000),
                             "env": core.SAN_ENV if flavour == "san" else None}], timeout=3600)
    V.absorb(res)
    m = core.merge_summaries(res)
    cnt, mx = m["counters"], m["maxima"]

    # per-operation observation table: op -> numeric type -> class -> calls observed
    table = {}
    registered = set()
    for k, v in cnt.items():
        if not k.startswith("obs|"):
            continue
        _, cls, op, t = k.split("|")
        registered.add(op)
        table.setdefault(op, {}).setdefault(t, {})[cls] = v
        if v == 0:
            V.inconclusive.append("operation %s was never observed in workload '%s' for %s" % (op, cls, t))
    expected = set(EXPECTED_OPS) | {"embed(%s)" % o for o in EXPECTED_EMBED}
    for op in sorted(expected - registered):
        V.inconclusive.append("operation %s is enumerated but the monitor never registered it" % op)
    for op in sorted(registered - expected):
        V.inconclusive.append("the monitor ran an operation the decider does not know: %s" % op)
    for op in sorted(expected & registered):
        for t in TYPES:
            if sum(table.get(op, {}).get(t, {}).values()) == 0:
                V.inconclusive.append("operation %s has zero observations for %s" % (op, t))
    for k in ("harness_reference_not_representable", "harness_reference_outside_result_shape"):
        if cnt.get(k, 0):
            V.inconclusive.append("harness self-check failed %d times: %s" % (cnt[k], k))
    for s in ("Dyad", "SymmetricDyad"):
        for t in TYPES:
            for k in ("inverse_integer_singular", "inverse_integer_nonsingular", "inverse_judged_kappa_le_1e4"):
                if cnt.get("%s|%s|%s" % (k, s, t), 0) == 0:
                    V.inconclusive.append("%s: %s is zero for %s" % (s, k, t))

    alias = {k.split("|", 1)[1]: v for k, v in cnt.items() if k.startswith("alias_probes|")}
    for sh in SHAPES:
        for t in TYPES:
            if alias.get("%s|%s" % (sh, t), 0) == 0:
                V.inconclusive.append("no compound assignment with an operand inside the object itself was observed for %s<%s>" % (sh, t))

    def per_type(prefix):
        out = {}
        for k, v in mx.items():
            if k.startswith(prefix + "|"):
                _, op, t = k.split("|")
                out.setdefault(op, {})[t] = v
        return out

    worst = {}
    for pre in ("max_cond", "max_ulps_wellcond", "max_ulps"):
        vals = [(v, k) for k, v in mx.items() if k.startswith(pre + "|")]
        if vals:
            v, k = max(vals)
            worst[pre] = {"value": v, "where": k.split("|", 1)[1]}
    inverse = {}
    for k, v in list(cnt.items()) + list(mx.items()):
        if k.startswith("inverse_"):
            inverse[k] = v
    V.coverage = {
        "evaluations": m["evaluations"], "distinct_nontrivial": m["distinct_nontrivial"],
        "rule": "evaluations = output slots compared with the reference; distinct = (operation, numeric type, workload class) with at "
                "least one observation. Workloads: basis pairs with coefficients +-1,+-2 for every binary operation and operand-shape "
                "combination; exhaustive grids {-1,0,1,2}^N for unary operations (4^9 dyads, 4^6 symmetric dyads, 4^3, 4^2); random "
                "integers (exact); random reals (4*(ulp+Delta)); singular integer matrices generated on purpose for Inverse",
        "samples": m["samples"],
        "operations_enumerated": len(expected), "operations_observed": len([o for o in expected & registered]),
        "observations_per_operation": table,
        "compound_assignments_with_an_operand_inside_the_object_itself(x*=x[i], x/=x[i], x+=x, x-=x; bit-exact against a copied operand)": alias,
        "max_error_in_units_of_ulp_plus_Delta(bound 4)": per_type("max_cond"),
        "max_error_in_units_of_u_times_sum_abs_monomials(bound = depth)": per_type("max_err_over_uM"),
        "observations_accepted_only_by_the_forward_error_bound": {k.split("|", 1)[1]: v for k, v in cnt.items()
                                                                  if k.startswith("needed_forward_error_bound|") and v},
        "max_error_ulps_where_Delta<=ulp": per_type("max_ulps_wellcond"),
        "max_error_ulps_Magnitude(bound 2)": per_type("max_ulps"),
        "worst": worst,
        "inverse": inverse,
        "embedding_on_reals": {k: v for k, v in cnt.items() if k.startswith("embed_real_")},
        "is_symmetric": {k: v for k, v in cnt.items() if k.startswith("is_symmetric_")},
        "not_declared_in_the_headers": "Dot/Cross/Dyadic between a Vector and a PlanarVector, Dyad +/- SymmetricDyad: mixed vector "
                                       "products are exercised through the explicit Vector(PlanarVector) constructor",
    }
    return V.finish()


def replay(path, seed):
    return run("quick", seed)
