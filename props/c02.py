"""C02 — all conversion entry points agree; a quantity read back in its unit is unchanged."""
import os

from vlib import core

MON = os.path.join(core.VERIF, "mon")
NPARTS = 16


def targets(flavour="plain"):
    return [core.parted("c02_entry", os.path.join(MON, "c02_entry.cpp"), NPARTS, flavour=flavour, opt="-O0")]


def run(tier, seed, flavour="plain"):
    V = core.Verdict("C02", tier, seed)
    V.assumptions = [
        "the oracle is the library's own scalar PhQ::Convert, which C01 ties to the exact affine map; every other entry point must "
        "agree with it component by component within one ulp (non-identical agreements are counted)",
        "components carry pairwise distinct values so that a permuted, skipped or doubly converted slot is visible",
        "printed/JSON/XML/YAML forms in a unit are observed by the C15 forms monitor (same Value(unit) path)",
    ]
    od = core.run_dir("C02", tier)
    paths = core.build(targets(flavour))
    res = core.run_sharded([{"name": "c02_entry", "binary": paths["c02_entry"], "nshards": core.NCPU, "out": od,
                             "args": ["--seed", str(seed), "--tier", tier] + core.deep(tier, values=400) + core.boost(tier, flavour, values=40),
                             "env": core.SAN_ENV if flavour == "san" else None}], timeout=3600)
    V.absorb(res)
    m = core.merge_summaries(res)
    c = m["counters"]
    T = ("float", "double", "long double")
    rt = {t: c.get("runtime_pairs_" + t, 0) for t in T}
    st = {t: c.get("static_pairs_" + t, 0) for t in T}
    qt = {t: c.get("quantity_types_" + t, 0) for t in T}
    if min(rt.values()) < 10000 or min(st.values()) < 2500 or min(qt.values()) < 70:
        V.inconclusive.append("coverage floor not reached: runtime pairs %s static pairs %s quantity types %s" % (rt, st, qt))
    V.coverage = {
        "evaluations": m["evaluations"], "distinct_nontrivial": m["distinct_nontrivial"],
        "rule": "unit types: every ordered pair of declared units x 3 numeric types x {copying, in-place} x {scalar, array<1,2,3,6,9,17>, "
                "vector of 0/1/5/64, PlanarVector, Vector, SymmetricDyad, Dyad}; ConvertStatically for every unit to/from the standard unit, itself and "
                "its successor (scalar, both directions) and through the standard unit for the container forms; quantities: every dimensional quantity type x every unit: "
                "construction, Value(), Value(unit) for every unit, read-back, StaticValue<unit> and Create<unit> (all overloads) for "
                "every declared unit. distinct = (unit type, from, to, numeric type) + (quantity, unit, numeric type)",
        "samples": m["samples"], "runtime_unit_pairs": rt, "static_unit_pairs": st, "dimensional_quantity_types": qt,
        "dimensionless_quantity_types": {t: c.get("dimensionless_types_" + t, 0) for t in T},
        "static_quantity_units": {t: c.get("static_quantity_units_" + t, 0) for t in T},
        "constructor_spellings_checked": {k[21:]: v for k, v in c.items() if k.startswith("constructor_spellings_")},
        "agreements_within_one_ulp_but_not_bit_identical": c.get("not_bit_identical_but_within_one_ulp", 0),
        "maxima": m["maxima"], "lists": m["lists"],
    }
    return V.finish()


def replay(path, seed):
    return run("quick", seed)
