"""C07 — each unit system is coherent: its units combine with factor one.
Two observations: (1) the tables, exhaustively and exactly (Fractions) against the magnitudes the unit symbols imply;
(2) the running conversions (mon/c07_coherence.cpp): plain arithmetic on values in a system's base units, converted by the
library, against the same arithmetic on the converted base values."""
import os
from fractions import Fraction as Fr

from props import dumpbase
from vlib import core
from vlib import symbols as S

BASE_TYPES = {"Time": 0, "Length": 1, "Mass": 2, "ElectricCurrent": 3, "Temperature": 4, "SubstanceAmount": 5}
FORCE = (-2, 1, 1, 0, 0, 0, 0)


def unique_meaning(symbol, dims):
    # the symbol's magnitude; when the symbol's own dimensions differ from the declared ones (C06's question) the
    # magnitude is still compared with the product of base units raised to the *declared* exponents, as C07 states
    return dumpbase.choose_meaning(symbol, dims)[0]


NPARTS = 8
TYPES = ("float", "double", "long double")


def targets(flavour="plain"):
    return [core.parted("c07_coherence", os.path.join(dumpbase.MON, "c07_coherence.cpp"), NPARTS, flavour=flavour)]


def run(tier, seed, flavour="plain", prop="C07"):
    V = core.Verdict(prop, tier, seed)
    V.assumptions = [
        "exact SI magnitudes of the unit atoms in vlib/symbols.py (international foot/inch, avoirdupois pound, "
        "standard gravity 9.80665, slug = lbf*s^2/ft, slinch = lbf*s^2/in)",
        "a unit system's base units are the consistent units the library returns for Length, Mass, Time, Temperature, "
        "ElectricCurrent and SubstanceAmount, cross-checked against the system's own abbreviation",
        "run-time observation: each conversion may be off by the 16 ulps C01 allows, so plain arithmetic on converted base "
        "values and the converted result may differ by 16*(1+sum|exponents|)+1 ulps; base values 2^-12..2^12 (float: 2^-6..2^6)",
    ]
    paths = core.build(targets(flavour) + [dumpbase.dump_target(flavour)])
    d, crash = dumpbase.get_dump(flavour)
    if crash:
        V.add_violation("crash|dump|" + core.classify_crash(crash["rc"], crash["stderr_tail"]), crash)
        return V.finish()
    systems = d["unit_system"]["enumerators"]
    std_sys = d["unit_system"]["standard"]
    ut = {u["name"]: u for u in d["unit_types"]}
    evals = 0
    distinct = set()
    samples = []

    def unit_meaning(u, value):
        """Exact meaning of enumerator `value` of unit type dict u (via its abbreviation), or None."""
        for e in u["enumerators"]:
            if e["value"] == value and e.get("has_abbreviation"):
                try:
                    return unique_meaning(e["abbreviation"], u["dimensions"]), e
                except S.ParseError:
                    return None, e
        return None, None

    # base units of each system
    base = {}
    for s in systems:
        sv = str(s["value"])
        b = {}
        for tname, idx in BASE_TYPES.items():
            u = ut.get(tname)
            if u is None:
                V.inconclusive.append("unit type %s not found" % tname)
                continue
            cu = u["consistent"].get(sv)
            evals += 1
            if cu is None:
                V.add_violation("C07|system=%s|type=%s|missing-consistent-unit" % (s["id"], tname), {})
                continue
            m, e = unit_meaning(u, cu)
            if m is None:
                V.inconclusive.append("cannot expand consistent %s unit of %s" % (tname, s["id"]))
                continue
            if m.pi != 0:
                V.add_violation("C07|system=%s|type=%s|base-has-pi" % (s["id"], tname), {"unit": e["id"]})
            if tname == "Temperature":
                off = S.temperature_offset(e["abbreviation"])
                evals += 1
                if off is None or off != 0:
                    V.add_violation("C07|system=%s|type=Temperature|offset" % s["id"],
                                    {"unit": e["id"], "offset_kelvin": str(off)})
            b[idx] = m.mag
        base[sv] = b
        # cross-check against the system's own abbreviation
        try:
            atoms = [a for a in s["abbreviation"].replace("*", "·").split("·") if a]
            named = {}
            for a in atoms:
                for m in S.meanings(a):
                    if sum(abs(x) for x in m.dims) == 1 and max(m.dims) == 1:
                        named.setdefault(m.dims.index(1), m.mag)
                    elif m.dims == FORCE:
                        named["force"] = m.mag
            if "force" in named and 2 not in named and 0 in named and 1 in named:
                named[2] = named["force"] * named[0] ** 2 / named[1]
            for idx in (0, 1, 2, 4):
                evals += 1
                if idx in named and idx in b and named[idx] != b[idx]:
                    V.add_violation("C07|system=%s|base-%d-disagrees-with-abbreviation" % (s["id"], idx),
                                    {"from_abbreviation": str(named[idx]), "from_consistent_unit": str(b[idx]),
                                     "abbreviation": s["abbreviation"]})
                elif idx not in named:
                    V.inconclusive.append("system %s: base %d not derivable from %r" % (s["id"], idx, s["abbreviation"]))
        except S.ParseError as ex:
            V.inconclusive.append("cannot expand system abbreviation %r: %s" % (s["abbreviation"], ex))

    # forward table: coherence
    for u in d["unit_types"]:
        dims = u["dimensions"]
        if dims[6] != 0:
            V.inconclusive.append("unit type %s has a luminous-intensity exponent; no base unit to combine" % u["name"])
            continue
        for s in systems:
            sv = str(s["value"])
            evals += 1
            cu = u["consistent"].get(sv)
            key = "C07|system=%s|type=%s" % (s["id"], u["name"])
            if cu is None:
                V.add_violation(key + "|missing-consistent-unit", {})
                continue
            m, e = unit_meaning(u, cu)
            if e is None:
                V.add_violation(key + "|consistent-unit-not-an-enumerator", {"value": cu})
                continue
            if m is None:
                V.inconclusive.append("cannot expand %s::%s" % (u["name"], e["id"]))
                continue
            b = base.get(sv, {})
            if any(dims[i] != 0 and i not in b for i in range(6)):
                V.inconclusive.append("base units of %s incomplete" % s["id"])
                continue
            want = Fr(1)
            for i in range(6):
                want *= b[i] ** dims[i] if dims[i] else 1
            distinct.add((s["id"], u["name"]))
            if m.mag != want or m.pi != 0:
                V.add_violation(key + "|not-coherent",
                                {"consistent_unit": e["id"], "symbol": e["abbreviation"], "magnitude": str(m.mag),
                                 "pi_power": m.pi, "product_of_base_units": str(want), "ratio": str(m.mag / want),
                                 "declared_exponents": list(dims), "exponents_of_the_symbol": list(m.dims)})
            if len(samples) < 6 and sum(abs(x) for x in dims) > 2 and s["value"] >= 2:
                samples.append({"system": s["id"], "unit_type": u["name"], "consistent_unit": e["id"],
                                "symbol": e["abbreviation"], "exact_SI_magnitude": str(m.mag),
                                "product_of_base_units": str(want)})
            if s["value"] == std_sys:
                evals += 1
                if cu != u["standard"]:
                    V.add_violation(key + "|standard-system-unit-is-not-standard-unit",
                                    {"consistent": cu, "standard": u["standard"]})
        # reverse table
        for e in u["enumerators"]:
            evals += 1
            owners = [s["value"] for s in systems if u["consistent"].get(str(s["value"])) == e["value"]]
            want = owners[0] if len(owners) == 1 else None
            got = u["related_system"].get(str(e["value"]))
            distinct.add(("rev", u["name"], e["id"]))
            if got != want:
                V.add_violation("C07|type=%s|unit=%s|related-system" % (u["name"], e["id"]),
                                {"got": got, "want": want, "consistent_unit_of_systems": owners})
        named = {e["value"] for e in u["enumerators"]}
        for k in u["related_system_table_keys"]:
            evals += 1
            if k not in named:
                V.add_violation("C07|type=%s|related-system-table-key-not-an-enumerator" % u["name"], {"key": k})
    # (2) the running conversions
    od = core.run_dir(prop, tier)
    res = core.run_sharded([{"name": "c07_coherence", "binary": paths["c07_coherence"], "nshards": core.NCPU, "out": od,
                             "args": ["--seed", str(seed), "--tier", tier] + core.deep(tier, values=600000) + core.boost(tier, flavour, values=16000),
                             "env": core.SAN_ENV if flavour == "san" else None}], timeout=3600)
    V.absorb(res)
    m = core.merge_summaries(res)
    cnt = m["counters"]
    observed = {}
    for k, v in cnt.items():
        if k.startswith("obs|"):
            _, sid, tname, t = k.split("|")
            observed.setdefault(sid, {}).setdefault(t, {})[tname] = v
    skipped_lists = {k: v for k, v in m.get("lists", {}).items() if k.startswith("skipped_")}
    for s in systems:
        for u in d["unit_types"]:
            if u["dimensions"][6] != 0 or u["consistent"].get(str(s["value"])) is None:
                continue
            for t in TYPES:
                if observed.get(s["id"], {}).get(t, {}).get(u["name"], 0) == 0:
                    why = [k for k, v in skipped_lists.items() if any(("system=%s|type=%s|%s" % (s["id"], u["name"], t)) in x for x in v)]
                    V.inconclusive.append("no run-time observation of %s in %s for %s %s" % (u["name"], s["id"], t, why))
    evals += m["evaluations"]
    V.coverage = {
        "evaluations": evals, "distinct_nontrivial": len(distinct) + m["distinct_nontrivial"],
        "run_time_observations": {
            "rule": "one case = base values drawn log-uniformly, their product of powers formed by plain arithmetic, converted from "
                    "the consistent unit to the standard unit by the library and compared with the same arithmetic on the "
                    "library-converted base values (binary128)",
            "cases_judged": m["evaluations"],
            "cases_per_system_and_numeric_type": {sid: {t: sum(x.values()) for t, x in bt.items()} for sid, bt in observed.items()},
            "unit_types_observed_per_system": {sid: {t: len([1 for v in x.values() if v]) for t, x in bt.items()} for sid, bt in observed.items()},
            "max_error_over_bound": {k: v for k, v in m["maxima"].items() if k.startswith("max_error_over_bound_")},
            "skipped": {k: len(v) for k, v in skipped_lists.items()}, "skipped_out_of_range": cnt.get("skipped_out_of_range", 0),
            "samples": m["samples"][:8],
        },
        "rule": "one case per (unit system, unit type) forward entry and per (unit type, unit) reverse look-up; all are "
                "enumerated from the reflected enumerators; non-trivial = the entry was expanded to an exact rational and compared",
        "samples": samples, "exhaustive": True,
        "systems": len(systems), "unit_types": len(d["unit_types"]),
        "units": sum(len(u["enumerators"]) for u in d["unit_types"]),
        "base_units_SI": {s["id"]: {k: str(v) for k, v in base[str(s["value"])].items()} for s in systems},
    }
    return V.finish()


def replay(path, seed):
    return run("quick", seed)
