"""C12 — an elastic isotropic solid is the same material from any modulus pair."""
import os

from vlib import core

MON = os.path.join(core.VERIF, "mon")
NPARTS = 3  # one translation unit per numeric type of the model
TYPES = ("float", "double", "long double")
MODULI = ("YoungModulus", "ShearModulus", "LameFirstModulus", "IsentropicBulkModulus", "IsothermalBulkModulus",
          "PWaveModulus", "PoissonRatio")
FUNCTIONS = ("Stress(strain)", "Stress(strain,strain rate)", "Stress(strain rate)", "Strain(stress)", "StrainRate(stress)")
EXPECTED_CTORS = 20


def targets(flavour="plain"):
    return [core.parted("c12_solid", os.path.join(MON, "c12_solid.cpp"), NPARTS, flavour=flavour, include_gen=False)]


def run(tier, seed, flavour="plain", prop="C12"):
    V = core.Verdict(prop, tier, seed)
    V.assumptions = [
        "binary128 arithmetic of libquadmath; monitors are built -O1 -ffp-contract=off without -ffast-math",
        "reference (mu, lambda) of a modulus pair: textbook linear/quadratic inversions evaluated in binary128 from the same "
        "rounded inputs the constructor received, validated at start-up against the four forward identities of the property text; "
        "where the inversion is a quadratic ((E,lambda), (E,M)) the root with lambda >= 0 (nu in [0, 0.5)) is the material meant",
        "constructors/accessors: bound |got - ref| <= 4 (ulp(ref) + Delta), Delta = largest change of the reference when one input "
        "moves by one ulp (DESIGN.md 2.5, cond.hpp)",
        "Stress/Strain slots (8 inputs: mu, lambda, six slots): |got - ref| <= 4 (ulp(ref) + Delta + ulp(sum of |terms|)) with Delta "
        "the first-order change when every input moves by one ulp (sum of the one-at-a-time changes); the last term is the "
        "rounding of the type at the scale of the terms that are added (2 mu eps, lambda tr eps; sigma/2mu, b tr sigma): with the "
        "one-at-a-time maximum alone a correct evaluation of the documented formula exceeds 4 for near-incompressible dilatation",
        "derived accessors and round trips: own bound plus the bound of the previous stage carried through the exact map; "
        "cross-precision calls are judged in ulps of the coarser of (model type, argument type)",
        "a rounded input pair for which no real material exists (E > M after rounding) or which does not determine one "
        "((lambda, nu) = (0, 0)) has no reference and is counted, not judged",
    ]
    od = core.run_dir(prop, tier)
    paths = core.build(targets(flavour))
    res = core.run_sharded([{"name": "c12_solid", "binary": paths["c12_solid"], "nshards": core.NCPU, "out": od,
                             "args": ["--seed", str(seed), "--tier", tier] + core.deep(tier, materials=360000) + core.boost(tier, flavour, materials=30000),
                             "env": core.SAN_ENV if flavour == "san" else None}], timeout=3600)
    V.absorb(res)
    m = core.merge_summaries(res)
    cnt, mx, lists = m["counters"], m["maxima"], m["lists"]

    # ---- what was observed -------------------------------------------------------------------------------------
    ctors = {}
    for t in TYPES:
        declared = lists.get("declared_constructors_" + t, [])
        ctors[t] = declared
        if len(declared) != EXPECTED_CTORS:
            V.inconclusive.append("%d two-modulus constructors detected for %s, the property speaks of %d: %s"
                                  % (len(declared), t, EXPECTED_CTORS, ", ".join(declared)))
        for c in declared:
            if cnt.get("ctor|%s|%s" % (c, t), 0) == 0:
                V.inconclusive.append("constructor (%s) was never judged in %s" % (c, t))
            if cnt.get("rebuild|%s|%s" % (c, t), 0) == 0:
                V.inconclusive.append("rebuild from the reported pair (%s) was never judged in %s" % (c, t))
        for a in MODULI:
            if cnt.get("accessor|%s|%s" % (a, t), 0) == 0:
                V.inconclusive.append("accessor %s was never observed in %s" % (a, t))
        if cnt.get("GetType|%s" % t, 0) == 0:
            V.inconclusive.append("GetType was never observed in %s" % t)
    calls = {}
    for f in FUNCTIONS:
        for mt in TYPES:
            for at in TYPES:
                for how in ("direct", "virtual"):
                    k = "call|%s|model=%s|arg=%s|%s" % (f, mt, at, how)
                    n = cnt.get(k, 0)
                    calls["%s model=%s arg=%s %s" % (f, mt, at, how)] = n
                    if n == 0:
                        V.inconclusive.append("%s on a %s model with %s arguments (%s call) was never exercised" % (f, mt, at, how))

    def grp(prefix):
        return {k[len(prefix):]: v for k, v in sorted(mx.items()) if k.startswith(prefix)}

    delta_dom = {k: v for k, v in grp("delta_over_ulp|").items() if v > 100}
    V.coverage = {
        "evaluations": m["evaluations"], "distinct_nontrivial": m["distinct_nontrivial"],
        "rule": "ground-truth materials: mu log-uniform over 2^-20..2^40 Pa (float 2^-13..2^27), nu from {0, 1e-9, 0.25, 0.3, 0.499, "
                "0.499999, uniform [0,0.5), log-uniform (1e-12,0.1), 0.5 - log-uniform(2^-20,0.25)}; every declared constructor x "
                "7 accessors x 3 numeric types; rebuild of a rotating origin constructor's model from all reported pairs; "
                "5 virtual functions x 3 model types x 3 argument types x {direct, virtual} on tensors of 6 classes; "
                "distinct = (constructor|function, numeric types, nu class, tensor class)",
        "samples": m["samples"],
        "declared_constructors": ctors,
        "observations_per_constructor": {k[5:]: v for k, v in sorted(cnt.items()) if k.startswith("ctor|")},
        "observations_per_accessor": {k[9:]: v for k, v in sorted(cnt.items()) if k.startswith("accessor|")},
        "observations_per_identity": {k[9:]: v for k, v in sorted(cnt.items()) if k.startswith("identity|")},
        "observations_per_rebuild_pair": {k[8:]: v for k, v in sorted(cnt.items()) if k.startswith("rebuild|")},
        "constructors_returning_nan(observations with NaN state / judged, by class)": {
            k[len("nan_state|"):]: "%d / %d" % (v, cnt.get("ctor_by_class|" + k[len("nan_state|"):], 0))
            for k, v in sorted(cnt.items()) if k.startswith("nan_state|")},
        "calls_per_overload": calls,
        "tensor_models": {k: v for k, v in sorted(cnt.items()) if k.startswith("tensor_model")},
        "max_error_in_bound_units(limit 4)": {
            "constructor_stored_state": grp("err_ctor|"), "accessor_end_to_end": grp("err_accessor|"),
            "accessor_end_to_end_by_constructor(worst 12)": dict(sorted(grp("err_accessor_by_ctor|").items(), key=lambda kv: -kv[1])[:12]),
            "identity": grp("err_identity|"), "rebuild": grp("err_rebuild|"), "stress": grp("err_stress|"),
            "strain": grp("err_strain|"), "stress_or_strain_in_ulps_of_largest_term": grp("err_ulps_of_largest_term|"),
            "roundtrip_strain_of_stress": grp("err_roundtrip_Strain(Stress(eps))|"),
            "roundtrip_stress_of_strain": grp("err_roundtrip_Stress(Strain(sigma))|"),
        },
        "max_delta_in_ulps_of_max(|ref|,mu)_per_constructor": grp("delta_over_ulp|"),
        "constructors_where_the_conditioning_term_dominates(delta>100ulp)": delta_dom,
        "inputs_without_reference": {
            "constructor": {k[len("ctor_inputs_without_reference|"):]: v for k, v in sorted(cnt.items())
                            if k.startswith("ctor_inputs_without_reference|")},
            "rebuild": {k[len("rebuild_pair_without_reference|"):]: v for k, v in sorted(cnt.items())
                        if k.startswith("rebuild_pair_without_reference|")},
            "reasons": sorted(set(lists.get("ctor_inputs_without_reference", []) + lists.get("rebuild_pair_without_reference", [])))[:80],
        },
        "not_covered": "operator==/!=/< on models (C14); Print/JSON/XML/YAML (C15); nu < 0 and nu >= 0.5",
    }
    return V.finish()


def replay(path, seed):
    return run("quick", seed)
