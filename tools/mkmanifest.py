#!/usr/bin/env python3
"""Write /verif/MANIFEST.json from the table below (one place to edit; validates against the schema
if jsonschema is importable)."""
import json
import os
import sys

HERE = os.path.dirname(os.path.dirname(os.path.abspath(__file__)))

CHECKS = {
    "C01": dict(
        technique="runtime monitor: reference-model oracle (binary128 affine map from an independent unit-symbol grammar) over all ordered unit pairs",
        text="Every ordered pair of declared units of every unit type is converted at run time in float, double and long double on "
             "generated values of both signs and all magnitudes; each result is compared in ulps with the exact affine map obtained by "
             "parsing the units' own symbols against an independent atom table. Exhaustive over units and pairs, sampled over values.",
        note="Trusts vlib/symbols.py atom magnitudes, libquadmath, strict-IEEE build flags; bound 16 ulps at the scale of the largest term.",
        ref="3/C01"),
    "C06": dict(
        technique="runtime monitor: dump of the library's declared dimension sets checked against an independent symbol grammar; tuple-model oracle for print/order/hash",
        text="The running library's dimension sets for all unit types and quantity types are dumped and compared with the exponent vector "
             "obtained by expanding every unit symbol; printing, the six comparisons, hash and std containers are observed over whole "
             "exponent boxes against a tuple model.",
        note="Trusts the atom table's dimension vectors and compiler reflection of enumerators.",
        ref="3/C06"),
    "C07": dict(
        technique="runtime monitor: exhaustive dump of consistent-unit and related-system look-ups decided with exact rationals, plus a binary128 reference monitor over the running conversions",
        text="All 4x37 consistent-unit look-ups and all 514 reverse look-ups are executed and compared with the exact rational product of "
             "the system's base units; the finite space is enumerated completely. In addition values in each system's base units are "
             "combined by plain arithmetic, converted by the library from the consistent unit, and compared with the same arithmetic "
             "on the library-converted base values (no table of the harness involved).",
        note="Trusts the atom table's exact magnitudes; base units are taken from the library and cross-checked against the system's abbreviation.",
        ref="3/C07"),
    "C08": dict(
        technique="runtime monitor: compiler-reflected enumerators x tables (exhaustive), symbol-grammar oracle for spellings, set-membership oracle on generated strings",
        text="Enumerators come from compiler reflection of the enum declarations; every table look-up is executed for each of them, every "
             "accepted spelling is expanded by the independent grammar and compared with the magnitude of the enumerator it maps to, and "
             "generated near-miss and random byte strings must parse to nothing.",
        note="Trusts __PRETTY_FUNCTION__ spelling of enumerators and the atom table.",
        ref="3/C08"),
    "C11": dict(
        technique="runtime monitor: atan2 reference in binary128 over all compile-time-detected angle forms, workload weighted to parallel/antiparallel pairs",
        text="All 50 angle forms (8 kernels and every quantity-level constructor and member found by detection idioms) are run in three "
             "numeric types on random, exactly and nearly parallel/antiparallel, axis-aligned and perpendicular pairs; each result must be "
             "a number in [0, pi], symmetric, invariant under power-of-two rescaling bit for bit, and within 8*sqrt(eps) of atan2(|axb|, a.b).",
        note="Trusts libquadmath atan2q; lengths restricted to the non-overflowing range.",
        ref="3/C11"),
    "C15": dict(
        technique="runtime monitor: exact-decimal classification oracle on bit patterns (all 2^32 floats in the thorough tier), bit-exact parse-back, offline checker of recorded serialisation events (python json)",
        text="PhQ::Print is observed on boundary neighbourhoods, rounding slivers and stratified random bit patterns of all three types "
             "(thorough: every float), judged by digit count, exact decimal interval and bit-exact ParseNumber round trip; every quantity "
             "type x unit x {Print, JSON, XML, YAML, stream} is recorded and an offline checker verifies component order, abbreviation, "
             "stream == print and JSON validity.",
        note="Trusts glibc strto*/printf rounding, python's json module; finite normal values only.",
        ref="3/C15"),
    "C19": dict(
        technique="runtime monitoring of generated programs: the expression is evaluated during dynamic initialisation and again inside main() under g++ and clang++, -O0/-O2(+O1/O3), 1-3 TUs with permuted link order; a non-perturbing probe records which library tables are populated when user initialisation starts",
        text="One generated program per library facility (29 facilities x 3 numeric types), compiled with both compilers at several "
             "optimisation levels, compares the value computed by a namespace-scope initialiser with the same expression in main(); "
             "3-TU programs are linked in permuted orders. The schedules explored are exactly the initialisation orders the two compilers produce. "
             "A further program family creates a namespace-scope constant in every declared unit (514 x 3 numeric types) with the compile-time "
             "Create<unit>() and lets an initialiser that runs earlier read it: the object must have been constant-initialised.",
        note="Known finding (GCC, run-time conversion dispatch tables) is listed in known_findings.json per facility; everything else must pass.",
        ref="3/C19"),
    "C03": dict(
        technique="runtime monitor: metamorphic oracle (bit-exact commutation with power-of-two rescaling of the seven base units) over all detected operators and harvested constructors/members",
        text="Every binary operator instance found by compile-time detection over all ordered pairs of the 92 quantity types, every "
             "harvested constructor (1-9 arguments) and member function is executed twice, on random operands and on the same operands "
             "after rescaling the base units by independent powers of 2^6; the results must agree bit for bit after scaling by the "
             "factor the declared dimension set predicts. The program dimension is exhaustive, inputs are sampled.",
        note="Trusts the declared dimension sets (tied to units by C06) and the regex harvest (each item confirmed by a detection idiom; counts reported).",
        ref="3/C03"),
    "C04": dict(
        technique="runtime monitor: bit-exact IEEE reference per operator instance, random compound-assignment histories against pure-operator chains, constructor twins, math overloads",
        text="All ~780 operator instances per numeric type are run on random operands and compared bit for bit with the IEEE operation "
             "named by the operator symbol applied to the stored values in the written order; random histories of mixed compound "
             "assignments are replayed against the chain of pure operators; constructor twins and std:: math overloads must be bit-identical.",
        note="Strict-IEEE build (-O1 -ffp-contract=off, no -ffast-math); the repository's own -ffast-math flags are out of scope.",
        ref="3/C04"),
    "C05": dict(
        technique="runtime monitor: round-trip oracle over all inverse pairs derived from declared signatures (393 constructor pairs + 214 operator pairs), conditioning measured by perturbing the intermediate",
        text="Every constructor pair X(A..)/A_r(X, rest) generated from the harvested signatures and every operator pair (a op b) op' b "
             "is composed on positive log-uniform inputs over +-20 decades in three numeric types; the recovered operand must match "
             "within 4 ulps (8 for 3-4 argument relations), at the scale of the largest operand for additive families, or within the "
             "measured effect of one rounding of the intermediate for relations that cancel by nature.",
        note="Pairs come from signatures; ill-conditioned intermediates (one ulp moves the answer by >1 %) are counted and skipped.",
        ref="3/C05"),
    "C09": dict(
        technique="runtime monitor: index-loop reference algebra (int64 exact / binary128) on basis pairs, exhaustive small-integer grids and random tensors",
        text="123 operations per numeric type (all product overloads, dot/cross/dyadic, determinant, cofactors, adjugate, inverse, "
             "component-wise arithmetic, embeddings) are compared with an independent index-loop reference: exactly on integer-valued "
             "inputs (basis pairs make the bilinear program space exhaustive), within conditioning-aware bounds on reals; inverse "
             "presence is decided exactly on integer matrices including purpose-built singular ones.",
        note="Trusts libquadmath; a-priori forward error bound gamma_n*sum|monomials| accepted for determinant/inverse on reals.",
        ref="3/C09"),
    "C10": dict(
        technique="runtime monitor: binary128 oracle for unit length, parallelism, scale invariance and recomposition over every harvested construction path of a direction and the 17 vector quantities",
        text="58 construction paths of Direction/PlanarDirection and the Magnitude/Direction/component accessors of all 17 vector "
             "quantity types are driven with 16 input classes (200 binades of length, dominant components, signed zeros, zero vector); "
             "|d|-1 <= 4 ulps, parallelism, bit-exact invariance under power-of-two rescaling, typed magnitude and recomposition are judged in binary128.",
        note="Inputs whose component squares underflow are outside the premise for the bit-identity clause (counted in evidence).",
        ref="3/C10"),
    "C12": dict(
        technique="runtime monitor: binary128 isotropic-elasticity reference from the same rounded inputs, all 20 constructors x 7 accessors x 3x3 overloads, direct and virtual calls",
        text="Ground-truth materials over many decades of stiffness and Poisson ratios in [0, 0.5) feed each of the 20 constructors; stored "
             "moduli, identities, rebuilds from every reported pair, Stress/Strain maps per slot, their composition, argument "
             "independence and virtual-vs-direct bit identity are judged with conditioning-aware bounds in three numeric types.",
        note="Bound 4*(ulp + Delta) with Delta from one-ulp input perturbations of the binary128 reference.",
        ref="3/C12"),
    "C13": dict(
        technique="runtime monitor: binary128 reference 2*mu*D + mu_b*tr(D)*I and its inverse, linearity and exact homogeneity checks, all overload x model-type cells direct and virtual",
        text="Both Newtonian fluid classes x 3 model numeric types x 3 argument overloads are exercised on 9 tensor classes and viscosities "
             "over many decades: stress and strain-rate maps per slot, their composition, zero stubs, bit-identical virtual calls, "
             "linearity and power-of-two homogeneity.",
        note="Bound 4*(ulp at the largest term + summed one-ulp sensitivities).",
        ref="3/C13"),
    "C18": dict(
        technique="runtime monitor: table of 140 definitional rows (constructor, operator and member spellings, all inverse forms), each detected at compile time and compared with its textbook formula in binary128",
        text="Each named definition (dynamic pressure, total pressure, sound speed, Mach, Reynolds, Prandtl, gamma and R families, "
             "thermal diffusivity, kinematic viscosity, period/frequency, strain(-rate) from gradients, thermal strains, von Mises, "
             "traction, isotropic stress) is evaluated on independent positive inputs over +-20 decades in three numeric types and "
             "compared per slot with the formula written on binary128; a removed relation is reported absent, one that no longer compiles is a violation. "
             "Inputs near the ends of the exponent range are replayed from a calibration file that records which of 256 fixed inputs per row "
             "and numeric type held on the tree it was committed with.",
        note="Bound 4 ulps (4*(ulp+Delta) for rows that subtract). calib/*.txt are regenerated by tools/calibrate.py only on a deliberate decision.",
        ref="3/C18"),
    "C02": dict(
        technique="runtime monitor: cross-checking oracle (every conversion entry point against the scalar conversion, component by component) with byte comparison of arguments of copying forms",
        text="For every unit type all ordered unit pairs are driven through the copying and in-place free functions on scalars, "
             "arrays, std::vector and the four shapes with pairwise distinct components; compile-time conversions are instantiated for "
             "every declared unit via compiler reflection; for every dimensional quantity type and unit, construction, Value(), "
             "Value(unit), read-back, StaticValue<unit> and all Create<unit> overloads must agree with the scalar conversion within one ulp.",
        note="The scalar PhQ::Convert is the oracle (tied to truth by C01); printed forms in a unit are observed by C15.",
        ref="3/C02"),
    "C14": dict(
        technique="runtime monitor: lexicographic tuple-model oracle on tie-forcing grids (all pairs for <=3 components), hash equality, transitivity on triples, std::set/unordered_set round trips",
        text="For the 92 quantity types, the four vector/tensor types, the three model classes and Dimensions, objects built from "
             "{-inf,-2,-0,+0,1,2,+inf} grids are compared with all six operators against a lexicographic model on the stored values; "
             "equal objects must hash equally and shuffled multisets must round-trip through ordered and unordered containers.",
        note="NaN values are outside the property; directions are judged on the value their constructor stores.",
        ref="3/C14"),
    "C16": dict(
        technique="runtime monitor: per-slot static_cast oracle, bit-exact, over all converting constructors and assignments and all 6 ordered numeric-type pairs",
        text="Every converting constructor and converting assignment of 96 types is exercised for all six ordered pairs of numeric types "
             "with pairwise distinct components including values that round, overflow or become subnormal when narrowed; every slot "
             "must equal the static_cast bit for bit, widening then narrowing must be the identity, directions must stay unit vectors within 2 ulps of the cast.",
        note="Absent converting members are listed in the evidence.",
        ref="3/C16"),
    "C17": dict(
        technique="runtime monitor: layout facts read from type traits at run time plus byte-pattern, memcpy and accessor probes (also run under ASan/UBSan by C20)",
        text="All 276 instantiations: size, alignment, trivial copyability, standard layout; 0xA5-filled buffers prove every value byte "
             "of every slot is written by construction and sits at offset i*sizeof(T); arrays of quantities are copied to arrays of "
             "numbers and back; Zero() is all-zero bytes; SetValue/MutableValue write exactly the stored value.",
        note="Exhaustive over the finite space of instantiations.",
        ref="3/C17"),
    "C20": dict(
        technique="sanitizers: every monitor re-run under ASan + UBSan + libstdc++ debug mode (reports abort and are attributed by breadcrumb), strto*-model oracle for ParseNumber on generated byte strings, libFuzzer+ASan+UBSan target for both parsers, valgrind memcheck (thorough)",
        text="The other properties' workloads are rebuilt with -fsanitize=address,undefined -fno-sanitize-recover=all and libstdc++ "
             "debug assertions and re-run with their oracles on, so a sanitizer report, an escaped exception, an undeclared enumerator "
             "or a wrong value all surface; ParseNumber is driven with six classes of hostile byte strings against a model written on "
             "strtof/strtod/strtold; a clang libFuzzer target explores both parsers with the same oracles; memcheck looks for uninitialised reads.",
        note="Quick re-runs the table/parser/printing/angle/model/per-type monitors (50 TUs, ~5 min cold); thorough re-runs all. MSan unusable here (uninstrumented libstdc++).",
        ref="3/C20"),
}

PENDING = {}

NOT_APPLICABLE = {}


def main():
    checks = []
    for pid in sorted(CHECKS):
        c = CHECKS[pid]
        checks.append({
            "property_id": pid,
            "quick_cmd": "./check %s --tier quick" % pid,
            "thorough_cmd": "./check %s --tier thorough" % pid,
            "evidence_file": "evidence/%s.json" % pid,
            "replay_cmd_template": "./check %s --replay {path}" % pid,
            "engine": "check",
            "level_claimed": {"category": "exploration", "text": c["text"], "design_ref": "DESIGN.md section " + c["ref"]},
            "level_note": c["note"],
            "technique": c["technique"],
        })
    na = []
    allp = ["C%02d" % i for i in range(1, 21)]
    for pid in allp:
        if pid in CHECKS:
            continue
        reason = NOT_APPLICABLE.get(pid) or PENDING.get(pid) or \
            "no check registered yet in this commit: the monitor for this property is still being built (see DESIGN.md section 3)"
        na.append({"property_id": pid, "reason": reason})
    man = {
        "version": 1,
        "setup_cmd": "./check --setup",
        "hooks": {
            "guard": "PHQ_VERIF",
            "enable": "no hooks exist: every property is observable at the public API; the guard name is reserved",
            "baseline_off_cmd": "cmake --build /repo/_build -j16 && ctest --test-dir /repo/_build -j8 --timeout 900",
            "source_commits": [],
            "add_only": True,
        },
        "engines": [{
            "name": "check", "path": "check",
            "serves_properties": sorted(CHECKS),
            "kind_free_text": "python driver: content-addressed build of C++17 monitors against /repo's current headers, sharded execution "
                              "on 16 cores, reference-model oracles (binary128, exact rationals), sanitizer flavour, known-findings matching",
        }],
        "checks": checks,
        "not_applicable": na,
        "notes": "Technique family: runtime monitoring and sanitizers. Exit 0 held / 1 VIOLATION / 2 inconclusive.",
    }
    p = os.path.join(HERE, "MANIFEST.json")
    json.dump(man, open(p, "w"), indent=1, ensure_ascii=False)
    try:
        import jsonschema
        jsonschema.validate(man, json.load(open("/root/.vp/MANIFEST.schema.json")))
        print("MANIFEST.json valid (%d checks, %d not claimed)" % (len(checks), len(na)))
    except ImportError:
        print("MANIFEST.json written (jsonschema not importable here; %d checks)" % len(checks))


if __name__ == "__main__":
    main()
