#!/usr/bin/env python3
"""Write /verif/MANIFEST.json from the table below (one place to edit; validates against the schema
if jsonschema is importable)."""
import json
import os
import sys

HERE = os.path.dirname(os.path.dirname(os.path.abspath(__file__)))

CHECKS = {
    "C01": dict(
        technique="runtime monitor: reference-model oracle (binary128 affine map from an independent unit-symbol grammar) over all ordered unit pairs",
        text="Every ordered pair of declared units of every unit type is converted at run time in float, double and long double on "
             "generated values of both signs and all magnitudes; each result is compared in ulps with the exact affine map obtained by "
             "parsing the units' own symbols against an independent atom table. Exhaustive over units and pairs, sampled over values.",
        note="Trusts vlib/symbols.py atom magnitudes, libquadmath, strict-IEEE build flags; bound 16 ulps at the scale of the largest term.",
        ref="3/C01"),
    "C06": dict(
        technique="runtime monitor: dump of the library's declared dimension sets checked against an independent symbol grammar; tuple-model oracle for print/order/hash",
        text="The running library's dimension sets for all unit types and quantity types are dumped and compared with the exponent vector "
             "obtained by expanding every unit symbol; printing, the six comparisons, hash and std containers are observed over whole "
             "exponent boxes against a tuple model.",
        note="Trusts the atom table's dimension vectors and compiler reflection of enumerators.",
        ref="3/C06"),
    "C07": dict(
        technique="runtime monitor: exhaustive dump of consistent-unit and related-system look-ups decided with exact rationals",
        text="All 4x37 consistent-unit look-ups and all 514 reverse look-ups are executed and compared with the exact rational product of "
             "the system's base units; the finite space is enumerated completely.",
        note="Trusts the atom table's exact magnitudes; base units are taken from the library and cross-checked against the system's abbreviation.",
        ref="3/C07"),
    "C08": dict(
        technique="runtime monitor: compiler-reflected enumerators x tables (exhaustive), symbol-grammar oracle for spellings, set-membership oracle on generated strings",
        text="Enumerators come from compiler reflection of the enum declarations; every table look-up is executed for each of them, every "
             "accepted spelling is expanded by the independent grammar and compared with the magnitude of the enumerator it maps to, and "
             "generated near-miss and random byte strings must parse to nothing.",
        note="Trusts __PRETTY_FUNCTION__ spelling of enumerators and the atom table.",
        ref="3/C08"),
    "C11": dict(
        technique="runtime monitor: atan2 reference in binary128 over all compile-time-detected angle forms, workload weighted to parallel/antiparallel pairs",
        text="All 50 angle forms (8 kernels and every quantity-level constructor and member found by detection idioms) are run in three "
             "numeric types on random, exactly and nearly parallel/antiparallel, axis-aligned and perpendicular pairs; each result must be "
             "a number in [0, pi], symmetric, invariant under power-of-two rescaling bit for bit, and within 8*sqrt(eps) of atan2(|axb|, a.b).",
        note="Trusts libquadmath atan2q; lengths restricted to the non-overflowing range.",
        ref="3/C11"),
    "C15": dict(
        technique="runtime monitor: exact-decimal classification oracle on bit patterns (all 2^32 floats in the thorough tier), bit-exact parse-back, offline checker of recorded serialisation events (python json)",
        text="PhQ::Print is observed on boundary neighbourhoods, rounding slivers and stratified random bit patterns of all three types "
             "(thorough: every float), judged by digit count, exact decimal interval and bit-exact ParseNumber round trip; every quantity "
             "type x unit x {Print, JSON, XML, YAML, stream} is recorded and an offline checker verifies component order, abbreviation, "
             "stream == print and JSON validity.",
        note="Trusts glibc strto*/printf rounding, python's json module; finite normal values only.",
        ref="3/C15"),
    "C19": dict(
        technique="runtime monitoring of generated programs: the expression is evaluated during dynamic initialisation and again inside main() under g++ and clang++, -O0/-O2(+O1/O3), 1-3 TUs with permuted link order; a non-perturbing probe records which library tables are populated when user initialisation starts",
        text="One generated program per library facility (26 facilities x 3 numeric types), compiled with both compilers at several "
             "optimisation levels, compares the value computed by a namespace-scope initialiser with the same expression in main(); "
             "3-TU programs are linked in permuted orders. The schedules explored are exactly the initialisation orders the two compilers produce.",
        note="Known finding (GCC, run-time conversion dispatch tables) is listed in known_findings.json per facility; everything else must pass.",
        ref="3/C19"),
}

PENDING = {}

NOT_APPLICABLE = {}


def main():
    checks = []
    for pid in sorted(CHECKS):
        c = CHECKS[pid]
        checks.append({
            "property_id": pid,
            "quick_cmd": "./check %s --tier quick" % pid,
            "thorough_cmd": "./check %s --tier thorough" % pid,
            "evidence_file": "evidence/%s.json" % pid,
            "replay_cmd_template": "./check %s --replay {path}" % pid,
            "engine": "check",
            "level_claimed": {"category": "exploration", "text": c["text"], "design_ref": "DESIGN.md section " + c["ref"]},
            "level_note": c["note"],
            "technique": c["technique"],
        })
    na = []
    allp = ["C%02d" % i for i in range(1, 21)]
    for pid in allp:
        if pid in CHECKS:
            continue
        reason = NOT_APPLICABLE.get(pid) or PENDING.get(pid) or \
            "no check registered yet in this commit: the monitor for this property is still being built (see DESIGN.md section 3)"
        na.append({"property_id": pid, "reason": reason})
    man = {
        "version": 1,
        "setup_cmd": "./check --setup",
        "hooks": {
            "guard": "PHQ_VERIF",
            "enable": "no hooks exist: every property is observable at the public API; the guard name is reserved",
            "baseline_off_cmd": "cmake --build /repo/_build -j16 && ctest --test-dir /repo/_build -j8 --timeout 900",
            "source_commits": [],
            "add_only": True,
        },
        "engines": [{
            "name": "check", "path": "check",
            "serves_properties": sorted(CHECKS),
            "kind_free_text": "python driver: content-addressed build of C++17 monitors against /repo's current headers, sharded execution "
                              "on 16 cores, reference-model oracles (binary128, exact rationals), sanitizer flavour, known-findings matching",
        }],
        "checks": checks,
        "not_applicable": na,
        "notes": "Technique family: runtime monitoring and sanitizers. Exit 0 held / 1 VIOLATION / 2 inconclusive.",
    }
    if not na:
        del man["not_applicable"]
    p = os.path.join(HERE, "MANIFEST.json")
    json.dump(man, open(p, "w"), indent=1, ensure_ascii=False)
    try:
        import jsonschema
        jsonschema.validate(man, json.load(open("/root/.vp/MANIFEST.schema.json")))
        print("MANIFEST.json valid (%d checks, %d not claimed)" % (len(checks), len(na)))
    except ImportError:
        print("MANIFEST.json written (jsonschema not importable here; %d checks)" % len(checks))


if __name__ == "__main__":
    main()
