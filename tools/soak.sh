#!/bin/bash
# Run every registered quick check for the given seeds; print one line per (check, seed).
cd "$(dirname "$0")/.."
seeds="${@:-1 2 3}"
for s in $seeds; do
  for p in C01 C02 C03 C04 C05 C06 C07 C08 C09 C10 C11 C12 C13 C14 C15 C16 C17 C18 C19 C20; do
    start=$(date +%s)
    VERIF_SEED=$s ./check $p --tier ${TIER:-quick} > out/soak_$p.log 2>&1
    rc=$?
    echo "seed=$s $p rc=$rc $(( $(date +%s) - start ))s $(grep -c '^VIOLATION' out/soak_$p.log) violations $(grep -c '^KNOWN-FINDING' out/soak_$p.log) known"
  done
done
