#!/usr/bin/env python3
"""Regression test of the machinery itself: apply every seeded change (seeded/<id>/patch.diff) in a scratch
git worktree of /repo, run the check(s) recorded as catching it with VERIF_REPO pointing at the worktree and
require exit code 1; finally run the same checks on the unchanged worktree and require exit code 0.
Never touches /repo's working tree.   tools/selftest.py [ids...]"""
import json
import os
import shutil
import subprocess
import sys

VERIF = os.path.dirname(os.path.dirname(os.path.abspath(__file__)))
WT = os.environ.get("SELFTEST_WT", "/var/tmp/verif_selftest_wt")


def sh(cmd, **kw):
    return subprocess.run(cmd, stdout=subprocess.PIPE, stderr=subprocess.STDOUT, **kw)


def main():
    want = set(sys.argv[1:])
    subprocess.run(["git", "-C", "/repo", "worktree", "remove", "--force", WT], stdout=subprocess.DEVNULL, stderr=subprocess.DEVNULL)
    shutil.rmtree(WT, ignore_errors=True)
    p = sh(["git", "-C", "/repo", "worktree", "add", "--detach", WT, "HEAD"])
    if p.returncode != 0:
        print(p.stdout.decode())
        return 2
    env = dict(os.environ, VERIF_REPO=WT)
    bad = 0
    try:
        for name in sorted(n for n in os.listdir(os.path.join(VERIF, "seeded")) if not n.startswith("_")):
            d = os.path.join(VERIF, "seeded", name)
            if want and name not in want:
                continue
            meta = json.load(open(os.path.join(d, "meta.json")))
            checks = meta.get("caught_by") or [meta.get("breaks_property")]
            sh(["git", "checkout", "--", "."], cwd=WT)
            a = sh(["git", "apply", os.path.join(d, "patch.diff")], cwd=WT)
            if a.returncode != 0:
                print("%s: patch no longer applies (the tree moved on): %s" % (name, a.stdout.decode()[-200:].strip()))
                bad += 1
                continue
            for c in checks[:1]:
                r = sh([os.path.join(VERIF, "check"), c, "--tier", "quick"], cwd=VERIF, env=env)
                ok = r.returncode == 1
                print("%s: %s exit %d %s" % (name, c, r.returncode, "caught" if ok else "NOT CAUGHT"))
                bad += 0 if ok else 1
            sh(["git", "checkout", "--", "."], cwd=WT)
    finally:
        subprocess.run(["git", "-C", "/repo", "worktree", "remove", "--force", WT], stdout=subprocess.DEVNULL, stderr=subprocess.DEVNULL)
    print("selftest: %d problems" % bad)
    return 1 if bad else 0


if __name__ == "__main__":
    sys.exit(main())
