#!/usr/bin/env python3
"""Print the markdown table of DESIGN.md section 8.8 from seeded/*/meta.json."""
import json
import os

HERE = os.path.dirname(os.path.dirname(os.path.abspath(__file__)))
print("| seeded change | caught by (quick tier) | by its own property's check | what it does |")
print("|---|---|---|---|")
for name in sorted(n for n in os.listdir(os.path.join(HERE, "seeded")) if not n.startswith("_")):
    m = json.load(open(os.path.join(HERE, "seeded", name, "meta.json")))
    caught = m.get("caught_by") or []
    own = m.get("breaks_property", name[:3])
    order = [own] if own in caught else []
    order += [c for c in caught if c != own]
    s = " ".join(str(m.get("summary", "")).split()).replace("|", "\\|")
    if len(s) > 170:
        s = s[:170] + "…"
    print("| %s | %s | %s | %s |" % (name, ", ".join(order) or "—", "yes" if own in caught else "no", s))
