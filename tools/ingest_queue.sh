#!/bin/bash
# tools/ingest_queue.sh <logfile> <PROP variant>...   sequentially ingest seeded changes
cd "$(dirname "$0")/.."
log=$1; shift
while [ $# -ge 2 ]; do
  MUT_JOBS=8 python3 tools/ingest_seeded.py $1 $2 2>&1 | tail -1 >> $log
  shift 2
done
echo DONE >> $log
