#!/usr/bin/env python3
"""Calibrate, on the CURRENT tree, which C18 rows hold for float over the wide exponent range (+-100 binades,
cases whose exact result leaves the normal range are skipped).  Writes calib/c18_float_wide_rows.txt.
Run it only on a tree whose checks are otherwise silent; commit the result.
   tools/calibrate.py [seeds...]"""
import os
import sys

HERE = os.path.dirname(os.path.dirname(os.path.abspath(__file__)))
sys.path.insert(0, HERE)
from vlib import core  # noqa: E402


def calibrate_c18(seeds):
    from props import c18
    paths = core.build(c18.targets())
    present, failing = set(), set()
    for seed in seeds:
        od = os.path.join(core.OUT, "calib_c18_%d" % seed)
        res = core.run_sharded([{"name": "c18_defs", "binary": list(paths.values())[0], "nshards": core.NCPU, "out": od,
                                 "args": ["--seed", str(seed), "--tier", "quick", "--cases", "40000", "--calibrate", "1"]}])
        m = core.merge_summaries(res)
        for r in res:
            if r.summary:
                present |= set(r.summary.get("lists", {}).get("rows_present", []))
                failing |= set(r.summary.get("lists", {}).get("float_wide_failing_rows", []))
            if r.violations:
                print("calibration run has real violations; fix those first:", r.violations[0].get("key"))
                return 1
        print("C18 seed %d: %d rows present, %d failing so far" % (seed, len(present), len(failing)))
    os.makedirs(os.path.join(HERE, "calib"), exist_ok=True)
    masks = {}
    for r in res:  # the range cases use a fixed seed: the last run's shard 0 has them
        if r.summary:
            for k, v in r.summary.get("lists", {}).items():
                if k.startswith("range_mask|") and v:
                    _, row, t = k.split("|")
                    masks[(row, t)] = v[0]
    with open(os.path.join(HERE, "calib", "c18_range_cases.txt"), "w") as f:
        for (row, t), m in sorted(masks.items()):
            f.write("%s\t%s\t%s\n" % (row, t, m))
    marked = sum(bin(int(m, 16)).count("1") for m in masks.values())
    print("C18: %d (row, numeric type) pairs, %d of %d range cases hold with margin on this tree" % (len(masks), marked, 256 * len(masks)))
    ok = sorted(present - failing)
    open(os.path.join(HERE, "calib", "c18_float_wide_rows.txt"), "w").write("\n".join(ok) + "\n")
    print("C18: %d of %d rows hold over the wide float range; %d do not (intermediate products leave the float range)" % (len(ok), len(present), len(failing)))
    return 0


if __name__ == "__main__":
    seeds = [int(x) for x in sys.argv[1:]] or list(range(1, 9))
    rc = calibrate_c18(seeds)
    sys.exit(rc)
