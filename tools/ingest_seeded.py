#!/usr/bin/env python3
"""tools/ingest_seeded.py <PROP> <a|b> [extra checks...]
Evaluate the seeded change /tmp/mut/<PROP>/<variant> in the scratch worktree /tmp/wt/<PROP> with
tools/mutrun.py (suite, demonstration both ways, the property's check and related checks) and, if it is
confirmed (suite passes, demo passes clean and fails patched), keep it as /verif/seeded/<PROP>-<variant>/."""
import json
import os
import shutil
import subprocess
import sys

VERIF = os.path.dirname(os.path.dirname(os.path.abspath(__file__)))
RELATED = {
    "C01": ["C02", "C08"], "C02": ["C01", "C15"], "C03": ["C04", "C05", "C18", "C10", "C11"], "C04": ["C03", "C05"],
    "C05": ["C18", "C03", "C04"], "C06": ["C03", "C14"], "C07": ["C01", "C02"], "C08": ["C01"], "C09": [], "C10": ["C16", "C09"],
    "C11": ["C10"], "C12": [], "C13": [], "C14": ["C06"], "C15": ["C02"], "C16": ["C10"], "C17": ["C16"], "C18": ["C05", "C03"],
    "C19": [], "C20": ["C08"],
}


def main():
    prop, var = sys.argv[1], sys.argv[2]
    extra = sys.argv[3:]
    d = "/tmp/mut/%s/%s" % (prop, var)
    wt = os.environ.get("MUT_WT") or "/tmp/wt/%s" % prop  # MUT_WT: a pre-built evaluation worktree shared by several changes
    if not os.path.exists(os.path.join(d, "patch.diff")):
        print("no patch in", d)
        return 1
    checks = [prop] + [c for c in RELATED.get(prop, []) + extra if c != prop]
    recheck = os.environ.get("MUT_RECHECK") == "1"
    prev = None
    if recheck:
        # re-run only the listed checks (after the machinery was strengthened); keep the recorded suite confirmation
        checks = extra or [prop]
        prev = json.load(open(os.path.join(d, "result.json")))
        os.environ["MUT_SKIP_SUITE"] = "1"
    subprocess.run([sys.executable, os.path.join(VERIF, "tools", "mutrun.py"), wt, d] + checks)
    res = json.load(open(os.path.join(d, "result.json")))
    if prev:
        for k in ("suite_build_rc", "suite_test_rc", "suite_tail", "suite_first_run_rc", "suite_failed_first_run", "suite_seconds"):
            if k in prev:
                res[k] = prev[k]
        merged = dict(prev.get("checks", {}))
        for c, r in res["checks"].items():
            if c in merged and merged[c]["rc"] != r["rc"]:
                r["rc_before_the_check_was_strengthened"] = merged[c]["rc"]
            merged[c] = r
        res["checks"] = merged
    ok = (res.get("demo_clean_rc") == 0 and res.get("demo_patched_rc") not in (0, None)
          and res.get("suite_build_rc") == 0 and res.get("suite_test_rc") == 0)
    res["confirmed"] = ok
    meta = {}
    try:
        meta = json.load(open(os.path.join(d, "meta.json")))
    except Exception:
        pass
    meta["breaks_property"] = prop
    meta["confirmation"] = {
        "demo_on_clean_tree_exit": res.get("demo_clean_rc"), "demo_with_patch_exit": res.get("demo_patched_rc"),
        "repository_suite": "build rc=%s, ctest rc=%s (%s)" % (res.get("suite_build_rc"), res.get("suite_test_rc"), (res.get("suite_tail") or "").strip().splitlines()[0:1]),
        "what_was_run": "tools/mutrun.py: git apply in a scratch worktree of /repo, cmake --build + ctest of the pinned suite, "
                        "g++ -std=c++17 -O1 demo.cpp (clean and patched), then VERIF_REPO=<worktree> ./check <id> --tier quick for: " + ", ".join(sorted(res["checks"])),
    }
    meta["checks"] = {c: dict({"exit": r["rc"], "seconds": r["seconds"], "violation_keys": r["violation_keys"][:5]},
                              **({"exit_before_the_check_was_strengthened": r["rc_before_the_check_was_strengthened"]}
                                 if "rc_before_the_check_was_strengthened" in r else {}))
                      for c, r in res["checks"].items()}
    meta["caught_by"] = [c for c, r in res["checks"].items() if r["rc"] == 1]
    json.dump(res, open(os.path.join(d, "result.json"), "w"), indent=1)
    if ok:
        out = os.path.join(VERIF, "seeded", "%s-%s" % (prop, var))
        os.makedirs(out, exist_ok=True)
        shutil.copy(os.path.join(d, "patch.diff"), out)
        shutil.copy(os.path.join(d, "demo.cpp"), out)
        json.dump(meta, open(os.path.join(out, "meta.json"), "w"), indent=1, ensure_ascii=False)
    print("%s-%s confirmed=%s caught_by=%s all=%s" % (prop, var, ok, meta["caught_by"], {c: r["rc"] for c, r in res["checks"].items()}))
    return 0


if __name__ == "__main__":
    sys.exit(main())
