#!/usr/bin/env python3
"""Evaluate one seeded change against the checks, in a scratch worktree (never in /repo):
   tools/mutrun.py <worktree> <dir with patch.diff, demo.cpp> <checks...>
Steps: clean tree -> demo must pass; apply patch -> test suite must still build and pass, demo must
fail, then each listed check is run with VERIF_REPO=<worktree>; finally the patch is reverted.
Writes <dir>/result.json."""
import json
import os
import subprocess
import sys
import time

VERIF = os.path.dirname(os.path.dirname(os.path.abspath(__file__)))


def sh(cmd, cwd=None, env=None, timeout=7200):
    p = subprocess.run(cmd, cwd=cwd, env=env, shell=isinstance(cmd, str), stdout=subprocess.PIPE, stderr=subprocess.STDOUT,
                       timeout=timeout)
    return p.returncode, p.stdout.decode(errors="replace")


def demo_tool(d):
    """Compiler and extra flags for the demonstration: plain g++ -O1 unless the author's meta.json says the demo needs
    clang++ (initialisation-order changes) or the sanitizers (undefined behaviour that has no visible effect otherwise)."""
    cxx, extra = "g++", []
    try:
        cmd = json.load(open(os.path.join(d, "meta.json"))).get("demo_cmd", "")
    except Exception:
        cmd = ""
    if not isinstance(cmd, str):
        cmd = json.dumps(cmd)
    if "clang++" in cmd and os.environ.get("MUT_DEMO_CXX", "") != "g++":
        cxx = "clang++"
    if "-fsanitize=" in cmd:
        extra = ["-fsanitize=address,undefined", "-fno-sanitize-recover=all", "-D_GLIBCXX_ASSERTIONS"]
    return cxx, extra


def demo(wt, d, tag):
    exe = os.path.join(d, "demo_%s.bin" % tag)
    cxx, extra = demo_tool(d)
    rc, out = sh([cxx, "-std=c++17", "-O1"] + extra + ["-I", os.path.join(wt, "include"), os.path.join(d, "demo.cpp"), "-o", exe])
    if rc != 0:
        return None, "demo does not compile: " + out[-800:]
    rc, out = sh([exe], timeout=600)
    try:
        os.remove(exe)
    except OSError:
        pass
    return rc, out[-600:]


def main():
    wt, d = sys.argv[1], sys.argv[2]
    checks = sys.argv[3:]
    skip_suite = os.environ.get("MUT_SKIP_SUITE") == "1"
    res = {"worktree": wt, "dir": d, "checks": {}}
    sh("git checkout -- . ", cwd=wt)
    res["demo_clean_rc"], res["demo_clean_out"] = demo(wt, d, "clean")
    rc, out = sh(["git", "apply", os.path.join(d, "patch.diff")], cwd=wt)
    if rc != 0:
        res["error"] = "patch does not apply: " + out[-500:]
        json.dump(res, open(os.path.join(d, "result.json"), "w"), indent=1)
        print(json.dumps(res)[:400])
        return 1
    try:
        if not skip_suite:
            t0 = time.time()
            if not os.path.exists(os.path.join(wt, "_build", "build.ninja")):
                sh("cmake -G Ninja -B _build -DPHYSICAL_QUANTITIES_PHQ_TEST=ON", cwd=wt)
            rc, out = sh("cmake --build _build -j%s" % os.environ.get("MUT_JOBS", "16"), cwd=wt)
            res["suite_build_rc"] = rc
            if rc == 0:
                rc2, out2 = sh("ctest --test-dir _build -j8 --timeout 900", cwd=wt)
                res["suite_first_run_rc"] = rc2
                tries = 0
                while rc2 != 0 and tries < 3:
                    # the suite has wall-clock *.Performance tests that flake on a loaded machine: re-run only the failed ones, serially
                    failed = [l for l in out2.splitlines() if "(Failed)" in l or "***Failed" in l]
                    res.setdefault("suite_failed_first_run", failed[:20])
                    rc2, out2 = sh("ctest --test-dir _build --rerun-failed -j1 --timeout 900", cwd=wt)
                    tries += 1
                res["suite_test_rc"] = rc2
                res["suite_tail"] = out2[-300:]
            else:
                res["suite_tail"] = out[-800:]
            res["suite_seconds"] = round(time.time() - t0)
        res["demo_patched_rc"], res["demo_patched_out"] = demo(wt, d, "patched")
        env = dict(os.environ)
        env["VERIF_REPO"] = wt
        for c in checks:
            t0 = time.time()
            rc, out = sh([os.path.join(VERIF, "check"), c, "--tier", os.environ.get("MUT_TIER", "quick")], cwd=VERIF, env=env)
            keys = [l.strip()[5:] for l in out.splitlines() if l.strip().startswith("key: ")]
            res["checks"][c] = {"rc": rc, "seconds": round(time.time() - t0), "violation_keys": keys[:12],
                                "tail": out[-400:] if rc not in (0, 1) else ""}
    finally:
        sh("git checkout -- .", cwd=wt)
    json.dump(res, open(os.path.join(d, "result.json"), "w"), indent=1)
    summary = {k: v for k, v in res.items() if k in ("demo_clean_rc", "demo_patched_rc", "suite_build_rc", "suite_test_rc")}
    summary["checks"] = {c: r["rc"] for c, r in res["checks"].items()}
    print(d, json.dumps(summary))
    return 0


if __name__ == "__main__":
    sys.exit(main())
