"""C19: generate small programs whose namespace-scope objects use one library facility each during
dynamic initialisation; main() re-evaluates the same expression and compares."""

PRELUDE = r'''
#include <cstdio>
#include <cstring>
#include <sstream>
#include <string>
#include <optional>
#include <type_traits>
%(includes)s

namespace c19 {
template <typename T> std::string hexbits(T v) {
  unsigned char b[sizeof(T)];
  std::memcpy(b, &v, sizeof(T));
  const size_t n = std::is_same<T, long double>::value ? 10 : sizeof(T);
  std::string s;
  char buf[4];
  for (size_t i = 0; i < n; ++i) { std::snprintf(buf, sizeof buf, "%%02x", b[n - 1 - i]); s += buf; }
  return s;
}
inline std::string R(float v) { return hexbits(v); }
inline std::string R(double v) { return hexbits(v); }
inline std::string R(long double v) { return hexbits(v); }
inline std::string R(bool v) { return v ? "true" : "false"; }
inline std::string R(int v) { return std::to_string(v); }
inline std::string R(const std::string& s) { return "s:" + s; }
inline std::string R(std::string_view s) { return "s:" + std::string(s); }
template <typename T> std::string R(const PhQ::PlanarVector<T>& v) { return R(v.x()) + "," + R(v.y()); }
template <typename T> std::string R(const PhQ::Vector<T>& v) { return R(v.x()) + "," + R(v.y()) + "," + R(v.z()); }
template <typename T> std::string R(const PhQ::SymmetricDyad<T>& v) {
  return R(v.xx()) + "," + R(v.xy()) + "," + R(v.xz()) + "," + R(v.yy()) + "," + R(v.yz()) + "," + R(v.zz());
}
template <typename E> auto R(E e) -> typename std::enable_if<std::is_enum<E>::value, std::string>::type {
  return "e:" + std::to_string(static_cast<int>(e));
}
template <typename X> std::string R(const std::optional<X>& o) { return o.has_value() ? "some:" + R(o.value()) : "none"; }
template <typename Q> auto R(const Q& q) -> decltype(R(q.Value())) { return R(q.Value()); }

#define C19_ONE_UNIT(U, I) one(PhQ::Unit::U{});
#define C19_ONE_QUANTITY(Q, I) s += PhQ::Q<T>::Zero().Print() + PhQ::Q<T>::Zero().JSON() + ";";

// Probe: defined before every user object of this translation unit; records whether the library's
// tables are already populated when user initialisation starts (written at once to stderr so that it
// survives a crash before main).
template <typename U, typename T> std::size_t to_size() { return PhQ::Internal::MapOfConversionsToStandard<U, T>.size(); }
template <typename U, typename T> std::size_t from_size() { return PhQ::Internal::MapOfConversionsFromStandard<U, T>.size(); }
template <typename U> std::size_t abbr_size() { return PhQ::Internal::Abbreviations<U>.size(); }
template <typename U> std::size_t spell_size() { return PhQ::Internal::Spellings<U>.size(); }
template <typename U> std::size_t cons_size() { return PhQ::Internal::ConsistentUnits<U>.size(); }
template <typename U> std::size_t rel_size() { return PhQ::Internal::RelatedUnitSystems<U>.size(); }
// The tables are read through function templates so that the probe, like user code, names them only
// from deferred instantiations and does not itself change where the compiler emits their initialisers.
struct Probe {
  Probe() {
    std::fprintf(stderr, "PROBE tu=%(tu)s Abbreviations=%%zu Spellings=%%zu ConsistentUnits=%%zu RelatedUnitSystems=%%zu "
                 "ToStandard<float>=%%zu ToStandard<double>=%%zu ToStandard<long double>=%%zu "
                 "FromStandard<float>=%%zu FromStandard<double>=%%zu FromStandard<long double>=%%zu\n",
                 abbr_size<PhQ::Unit::Length>(), spell_size<PhQ::Unit::Length>(), cons_size<PhQ::Unit::Length>(),
                 rel_size<PhQ::Unit::Length>(), to_size<PhQ::Unit::Length, float>(), to_size<PhQ::Unit::Length, double>(),
                 to_size<PhQ::Unit::Length, long double>(), from_size<PhQ::Unit::Length, float>(),
                 from_size<PhQ::Unit::Length, double>(), from_size<PhQ::Unit::Length, long double>());
  }
};
}  // namespace c19
%(probe)s
'''

# name, includes, expression template in terms of T (must be valid for float/double/long double), uses_dispatch
FACILITIES = [
    ("construct-standard-unit", ["Length"], "PhQ::Length<T>(static_cast<T>(1.25), PhQ::Unit::Length::Metre)", False),
    ("construct-nonstandard-unit", ["Length"], "PhQ::Length<T>(static_cast<T>(1.25), PhQ::Unit::Length::Foot)", True),
    ("construct-celsius", ["Temperature"], "PhQ::Temperature<T>(static_cast<T>(21.5), PhQ::Unit::Temperature::Celsius)", True),
    ("construct-vector-nonstandard-unit", ["Force"],
     "PhQ::Force<T>(PhQ::Vector<T>(static_cast<T>(1), static_cast<T>(-2), static_cast<T>(3.5)), PhQ::Unit::Force::Pound)", True),
    ("value-in-unit", ["Length"], "PhQ::Length<T>::template Create<PhQ::Unit::Length::Metre>(static_cast<T>(1.25)).Value(PhQ::Unit::Length::Foot)", True),
    ("convert-runtime-scalar", ["Length"], "PhQ::Convert(static_cast<T>(1.25), PhQ::Unit::Length::Foot, PhQ::Unit::Length::Inch)", True),
    ("convert-runtime-vector", ["Length"],
     "PhQ::Convert(PhQ::Vector<T>(static_cast<T>(1), static_cast<T>(2), static_cast<T>(3)), PhQ::Unit::Length::Foot, PhQ::Unit::Length::Metre)", True),
    ("print-in-unit", ["Length"], "PhQ::Length<T>::template Create<PhQ::Unit::Length::Metre>(static_cast<T>(1.25)).Print(PhQ::Unit::Length::Foot)", True),
    ("json-in-unit", ["Pressure".replace("Pressure", "StaticPressure")],
     "PhQ::StaticPressure<T>::template Create<PhQ::Unit::Pressure::Pascal>(static_cast<T>(101325)).JSON(PhQ::Unit::Pressure::Atmosphere)", True),
    ("create-static", ["Length"], "PhQ::Length<T>::template Create<PhQ::Unit::Length::Foot>(static_cast<T>(1.25))", False),
    ("convert-statically", ["Length"], "PhQ::ConvertStatically<PhQ::Unit::Length, PhQ::Unit::Length::Foot, PhQ::Unit::Length::Inch>(static_cast<T>(1.25))", False),
    ("static-value", ["Length"], "PhQ::Length<T>::template Create<PhQ::Unit::Length::Metre>(static_cast<T>(1.25)).template StaticValue<PhQ::Unit::Length::Foot>()", False),
    ("print-standard", ["Length"], "PhQ::Length<T>::template Create<PhQ::Unit::Length::Foot>(static_cast<T>(1.25)).Print()", False),
    ("json-xml-yaml", ["Velocity"],
     "[]{ const auto v = PhQ::Velocity<T>::template Create<PhQ::Unit::Speed::MetrePerSecond>(static_cast<T>(1), static_cast<T>(2), static_cast<T>(3)); return v.JSON() + v.XML() + v.YAML(); }()", False),
    ("stream", ["Length"], "[]{ using PhQ::operator<<; std::ostringstream os; os << PhQ::Length<T>::template Create<PhQ::Unit::Length::Foot>(static_cast<T>(1.25)) << PhQ::Unit::Length::Mile; return os.str(); }()", False),
    ("abbreviation", ["Length"], "PhQ::Abbreviation(PhQ::Unit::Length::Foot)", False),
    ("parse-enumeration", ["Length"], 'PhQ::ParseEnumeration<PhQ::Unit::Length>("ft")', False),
    ("parse-number", ["Length"], 'PhQ::ParseNumber<T>("1.25e-3")', False),
    ("consistent-unit", ["Length"], "PhQ::ConsistentUnit<PhQ::Unit::Length>(PhQ::UnitSystem::FootPoundSecondRankine)", False),
    ("related-unit-system", ["Length"], "PhQ::RelatedUnitSystem(PhQ::Unit::Length::Foot)", False),
    ("unit-system-tables", ["Length"],
     '[]{ std::ostringstream os; os << PhQ::Abbreviation(PhQ::UnitSystem::InchPoundSecondRankine) << "|" << c19::R(PhQ::ParseEnumeration<PhQ::UnitSystem>("mm·g·s·K")); return os.str(); }()', False),
    ("comparison", ["Length"],
     "PhQ::Length<T>::template Create<PhQ::Unit::Length::Foot>(static_cast<T>(1)) < PhQ::Length<T>::template Create<PhQ::Unit::Length::Metre>(static_cast<T>(1))", False),
    ("dimensions-print", ["Speed"], "PhQ::Speed<T>::Dimensions().Print()", False),
    ("arithmetic", ["Speed"],
     "(PhQ::Length<T>::template Create<PhQ::Unit::Length::Metre>(static_cast<T>(10)) / PhQ::Time<T>::template Create<PhQ::Unit::Time::Second>(static_cast<T>(4))) * static_cast<T>(3)", False),
    ("direction", ["Direction"], "PhQ::Direction<T>(static_cast<T>(1), static_cast<T>(2), static_cast<T>(-2))", False),
    ("constitutive-model", ["ConstitutiveModel/ElasticIsotropicSolid"],
     "[]{ const typename PhQ::ConstitutiveModel::template ElasticIsotropicSolid<T> m(PhQ::YoungModulus<T>::template Create<PhQ::Unit::Pressure::Pascal>(static_cast<T>(2.0e11)), PhQ::PoissonRatio<T>(static_cast<T>(0.3))); "
     "const PhQ::Strain<T> e(static_cast<T>(1e-3), static_cast<T>(2e-4), static_cast<T>(0), static_cast<T>(-3e-4), static_cast<T>(1e-5), static_cast<T>(5e-4)); "
     "return c19::R(m.Stress(e).Value()) + m.Print(); }()", False),
]

# facilities that sweep whole type lists (generated headers allu.hpp / allq.hpp are on the include path)
_ALL_UNITS = (
    "[]{ std::string s; "
    "auto one = [&s](auto u) { using U = decltype(u); try { "
    "s += std::string(PhQ::Abbreviation(PhQ::Standard<U>)) + \"|\" + c19::R(PhQ::ParseEnumeration<U>(PhQ::Abbreviation(PhQ::Standard<U>))) + \"|\"; "
    "for (const PhQ::UnitSystem sys : {PhQ::UnitSystem::MetreKilogramSecondKelvin, PhQ::UnitSystem::MillimetreGramSecondKelvin, "
    "PhQ::UnitSystem::FootPoundSecondRankine, PhQ::UnitSystem::InchPoundSecondRankine}) s += c19::R(PhQ::ConsistentUnit<U>(sys)) + \",\"; "
    "s += c19::R(PhQ::RelatedUnitSystem(PhQ::Standard<U>)) + \"|\" + PhQ::RelatedDimensions<U>.Print() + \";\"; "
    "} catch (const std::exception& e) { s += std::string(\"throw:\") + e.what() + \";\"; } }; "
    "VERIF_UNIT_TYPES(C19_ONE_UNIT) return s + c19::R(static_cast<T>(1)); }()")
_ALL_QUANTITIES = (
    "[]{ std::string s; VERIF_QUANTITIES(C19_ONE_QUANTITY) return s; }()")

FACILITIES += [
    ("scalar-in-standard-unit", ["Length"],
     "[]{ const auto q = PhQ::Length<T>::template Create<PhQ::Unit::Length::Foot>(static_cast<T>(1.25)); "
     "return c19::R(q.Value(PhQ::Unit::Length::Metre)) + q.Print(PhQ::Unit::Length::Metre) + q.JSON(PhQ::Unit::Length::Metre) + q.XML(PhQ::Unit::Length::Metre) + q.YAML(PhQ::Unit::Length::Metre); }()", False),
    ("vector-tensor-in-standard-unit", ["Velocity", "Stress", "PlanarForce", "VelocityGradient"],
     "[]{ const auto v = PhQ::Velocity<T>::template Create<PhQ::Unit::Speed::MetrePerSecond>(static_cast<T>(1), static_cast<T>(-2), static_cast<T>(3.5)); "
     "const auto s = PhQ::Stress<T>::template Create<PhQ::Unit::Pressure::Pascal>(static_cast<T>(1), static_cast<T>(2), static_cast<T>(3), static_cast<T>(4), static_cast<T>(5), static_cast<T>(6)); "
     "const auto f = PhQ::PlanarForce<T>::template Create<PhQ::Unit::Force::Newton>(static_cast<T>(7), static_cast<T>(-8)); "
     "const auto g = PhQ::VelocityGradient<T>::template Create<PhQ::Unit::Frequency::Hertz>(static_cast<T>(1), static_cast<T>(2), static_cast<T>(3), static_cast<T>(4), static_cast<T>(5), static_cast<T>(6), static_cast<T>(7), static_cast<T>(8), static_cast<T>(9)); "
     "return c19::R(v.Value(PhQ::Unit::Speed::MetrePerSecond)) + v.Print(PhQ::Unit::Speed::MetrePerSecond) + v.JSON(PhQ::Unit::Speed::MetrePerSecond) "
     "+ s.Print(PhQ::Unit::Pressure::Pascal) + s.YAML(PhQ::Unit::Pressure::Pascal) + f.XML(PhQ::Unit::Force::Newton) + c19::R(f.Value(PhQ::Unit::Force::Newton)) "
     "+ g.Print(PhQ::Unit::Frequency::Hertz); }()", False),
    ("all-unit-type-tables", ["@allu.hpp"], _ALL_UNITS, False),
    ("all-quantity-print-json", ["@allq.hpp"], _ALL_QUANTITIES, False),
    ("constitutive-model-serialise", ["ConstitutiveModel/ElasticIsotropicSolid", "ConstitutiveModel/CompressibleNewtonianFluid",
                                      "ConstitutiveModel/IncompressibleNewtonianFluid"],
     "[]{ const typename PhQ::ConstitutiveModel::template ElasticIsotropicSolid<T> m(PhQ::ShearModulus<T>::template Create<PhQ::Unit::Pressure::Pascal>(static_cast<T>(8.0e10)), "
     "PhQ::LameFirstModulus<T>::template Create<PhQ::Unit::Pressure::Pascal>(static_cast<T>(1.2e11))); "
     "const typename PhQ::ConstitutiveModel::template CompressibleNewtonianFluid<T> c(PhQ::DynamicViscosity<T>::template Create<PhQ::Unit::DynamicViscosity::PascalSecond>(static_cast<T>(1.5e-3))); "
     "const typename PhQ::ConstitutiveModel::template IncompressibleNewtonianFluid<T> i(PhQ::DynamicViscosity<T>::template Create<PhQ::Unit::DynamicViscosity::PascalSecond>(static_cast<T>(1.5e-3))); "
     "std::ostringstream os; os << m.JSON() << m.XML() << m.YAML() << m.Print() << c.JSON() << c.XML() << c.YAML() << c.Print() << i.JSON() << i.XML() << i.YAML() << i.Print() "
     "<< c19::R(m.GetType()) << c19::R(c.GetType()) << c19::R(i.GetType()); return os.str(); }()", False),
]

NUMERIC = [("float", "f"), ("double", "d"), ("long double", "l")]


def includes_for(names):
    out = []
    for n in sorted(set(names) | {"Length"}):
        out.append('#include "%s"' % n[1:] if n.startswith("@") else '#include "PhQ/%s.hpp"' % n)
    return "\n".join(out)


def facility_program(fac, holder="static"):
    """One program, one facility, all three numeric types; the namespace-scope object is an ordinary
    (internal-linkage) variable or an inline variable.  Output lines: RESULT <facility> <T> <equal> <static> <main>"""
    name, incs, expr, _ = fac
    decl = "static const" if holder == "static" else "inline const"
    src = PRELUDE % {"includes": includes_for(incs), "tu": "main", "probe": "static const c19::Probe c19_probe;"}
    for tname, suf in NUMERIC:
        src += "\nnamespace user_%s { using T = %s;\n" % (suf, tname)
        src += "static std::string compute() { return c19::R(%s); }\n" % expr
        src += "%s std::string at_static_init = compute();\n}\n" % decl
    src += "\nint main() {\n  int bad = 0;\n"
    for tname, suf in NUMERIC:
        src += ('  { const std::string m = user_%s::compute(); const bool eq = (m == user_%s::at_static_init); bad += !eq;\n'
                '    std::printf("RESULT\\t%s\\t%s\\t%%d\\t%%s\\t%%s\\n", eq ? 1 : 0, user_%s::at_static_init.c_str(), m.c_str()); }\n'
                % (suf, suf, name, tname, suf))
    src += "  return bad ? 3 : 0;\n}\n"
    return src


def tu_source(index, facs, is_main):
    """A translation unit of a multi-TU program: namespace-scope objects for the given facilities (double only)."""
    incs = []
    for f in facs:
        incs += f[1]
    src = PRELUDE % {"includes": includes_for(incs), "tu": "tu%d" % index,
                     "probe": "static const c19::Probe c19_probe_%d;" % index}
    src += "using T = double;\n"
    for k, f in enumerate(facs):
        src += "namespace tu%d_f%d {\n" % (index, k)
        src += "std::string compute() { return c19::R(%s); }\n" % f[2]
        src += "extern const std::string at_static_init;\nconst std::string at_static_init = compute();\n}\n"
    src += "int report_tu%d() {\n  int bad = 0;\n" % index
    for k, f in enumerate(facs):
        src += ('  { const std::string m = tu%d_f%d::compute(); const bool eq = (m == tu%d_f%d::at_static_init); bad += !eq;\n'
                '    std::printf("RESULT\\t%s\\tdouble\\t%%d\\t%%s\\t%%s\\n", eq ? 1 : 0, tu%d_f%d::at_static_init.c_str(), m.c_str()); }\n'
                % (index, k, index, k, f[0], index, k))
    src += "  return bad;\n}\n"
    return src


def main_source(ntu):
    src = "#include <cstdio>\n"
    for i in range(ntu):
        src += "int report_tu%d();\n" % i
    src += "int main() { int bad = 0;\n"
    for i in range(ntu):
        src += "  bad += report_tu%d();\n" % i
    src += "  return bad ? 3 : 0; }\n"
    return src


# ------------------------------------------------------------------------------------------------
# Constant initialisation of quantities created at compile time, in every unit.
# `Create<unit>(value)` is declared constexpr, so a namespace-scope `const Q late = Q::Create<unit>(v);` is initialised
# before any dynamic initialisation starts and any other initialiser may read it, whatever the order.  The program
# observes this at run time: `early` is an ordinary variable defined (hence initialised) BEFORE `late`; it reads `late`
# through a prior extern declaration.  If the compiler had to initialise `late` dynamically, `early` read zero.
# ------------------------------------------------------------------------------------------------
def constant_init_tu(index, tname, suffix, rows):
    """rows: (quantity, unit type, enumerator id).  One translation unit per numeric type."""
    qs = sorted({r[0] for r in rows})
    src = "#include <cstdio>\n#include <cstring>\n" + "\n".join('#include "PhQ/%s.hpp"' % q for q in qs) + "\n"
    src += "namespace ci_%s {\nusing T = %s;\n" % (suffix, tname)
    for k, (q, ut, en) in enumerate(rows):
        src += ("namespace k%d { using Q = PhQ::%s<T>; extern const Q late; static const T early = late.Value();\n"
                "const Q late = Q::Create<PhQ::Unit::%s::%s>(static_cast<T>(1.25)); }\n" % (k, q, ut, en))
    src += "}\nint report_ci_%d() {\n  int bad = 0;\n" % index
    src += "  using T = %s;\n" % tname
    for k, (q, ut, en) in enumerate(rows):
        src += ('  { const T e = ci_%s::k%d::early, l = ci_%s::k%d::late.Value(); const bool eq = std::memcmp(&e, &l, %s) == 0; bad += !eq;\n'
                '    std::printf("CI\\t%s\\t%s\\t%s\\t%s\\t%%d\\t%%.21Lg\\t%%.21Lg\\n", eq ? 1 : 0, static_cast<long double>(e), static_cast<long double>(l)); }\n'
                % (suffix, k, suffix, k, "10" if tname == "long double" else "sizeof(T)", q, ut, en, tname))
    src += "  return bad;\n}\n"
    return src


def constant_init_main(n):
    src = "#include <cstdio>\n"
    for i in range(n):
        src += "int report_ci_%d();\n" % i
    src += "int main() { int bad = 0;\n"
    for i in range(n):
        src += "  bad += report_ci_%d();\n" % i
    src += "  return bad ? 3 : 0; }\n"
    return src
