"""Harvest constructor and member-function relations between quantity types from the headers.

Every harvested item is confirmed by a detection idiom in the generated monitor code, so a harvest
mistake can only lose coverage (reported), never create a false alarm.  A second, looser regex counts
candidate declarations so that a harvest that silently finds fewer than it should is visible."""
import os
import re

from gen import lists

ARG = re.compile(r"const\s+(?:PhQ::)?(\w+)<NumericType>&\s*(\w+)?")
SKIP_MEMBERS = {"Zero", "Create", "Value", "StaticValue", "MutableValue", "Dimensions", "Unit"}


def strip_comments(txt):
    txt = re.sub(r"//[^\n]*", "", txt)
    return re.sub(r"/\*.*?\*/", "", txt, flags=re.S)


def class_body(txt, stem):
    m = re.search(r"\bclass\s+%s\s*:\s*public\s+Dimension\w+<[^{]*\{" % stem, txt)
    if not m:
        return ""
    i = m.end()
    depth = 1
    j = i
    while j < len(txt) and depth:
        if txt[j] == "{":
            depth += 1
        elif txt[j] == "}":
            depth -= 1
        j += 1
    return txt[i:j]


def split_args(s):
    out, depth, cur = [], 0, ""
    for ch in s:
        if ch in "<(":
            depth += 1
        elif ch in ">)":
            depth -= 1
        if ch == "," and depth == 0:
            out.append(cur.strip())
            cur = ""
        else:
            cur += ch
    if cur.strip():
        out.append(cur.strip())
    return out


def harvest(include):
    qs = lists.quantities(include)
    names = {q["name"] for q in qs}
    value_types = {"Vector", "PlanarVector", "SymmetricDyad", "Dyad"}
    ctors = []      # (target, [arg types])
    members = []    # (owner, name, [arg types], return type)
    loose_ctor = 0
    loose_mem = 0
    for q in qs:
        stem = q["name"]
        txt = strip_comments(open(os.path.join(include, "PhQ", stem + ".hpp"), errors="replace").read())
        body = re.sub(r"\s+", " ", class_body(txt, stem))
        # constructors:  [explicit] [constexpr] Stem( args ) [: init | ; | {]
        for m in re.finditer(r"(?<![\w~:<])%s\(([^()]*)\)\s*(?=[:;{])" % stem, body):
            args = split_args(m.group(1))
            if not args:
                continue
            loose_ctor += 1
            types = []
            ok = True
            for a in args:
                am = re.fullmatch(r"const\s+(?:PhQ::)?(\w+)<NumericType>&\s*\w*", a)
                if not am or am.group(1) not in names:
                    ok = False
                    break
                types.append(am.group(1))
            if not ok:
                continue
            if types == [stem]:
                continue  # copy constructor
            ctors.append((stem, types))
        # const member functions returning a quantity
        for m in re.finditer(r"\[\[nodiscard\]\]\s+(?:static\s+)?(?:inline\s+)?(?:constexpr\s+)?(?:PhQ::)?(\w+)<NumericType>\s+(\w+)\(([^()]*)\)\s+const", body):
            ret, name, argstr = m.group(1), m.group(2), m.group(3)
            loose_mem += 1
            if name in SKIP_MEMBERS or ret not in names:
                continue
            if q["shape"] == "PlanarVector" and name == "z":
                continue  # a planar quantity has no z component; such a declaration cannot be instantiated
            args = split_args(argstr)
            types = []
            ok = True
            for a in args:
                am = re.fullmatch(r"const\s+(?:PhQ::)?(\w+)<NumericType>&\s*\w*", a)
                if not am or am.group(1) not in names:
                    ok = False
                    break
                types.append(am.group(1))
            if ok and len(types) <= 1:
                members.append((stem, name, types, ret))
    # de-duplicate, keep order
    seen = set()
    uc = []
    for c in ctors:
        k = (c[0], tuple(c[1]))
        if k not in seen:
            seen.add(k)
            uc.append(c)
    seen = set()
    um = []
    for mm in members:
        k = (mm[0], mm[1], tuple(mm[2]))
        if k not in seen:
            seen.add(k)
            um.append(mm)
    return {"quantities": qs, "ctors": uc, "members": um, "loose_ctor_candidates": loose_ctor,
            "loose_member_candidates": loose_mem}


SHAPE_N = {"Scalar": 1, "PlanarVector": 2, "Vector": 3, "SymmetricDyad": 6, "Dyad": 9}


def inverse_pairs(h):
    """Constructor pairs X(A0..An-1) / Y(B0..) with Y = A_r and {B} = {X} + {A} - {A_r} (as multisets).
    Returns rows (X, [A...], r, [source index of each inverse argument: -1 = the result, m = A_m])."""
    shape = {q["name"]: SHAPE_N[q["shape"]] for q in h["quantities"]}
    ctors = h["ctors"]
    have = {}
    for c in ctors:
        have.setdefault(c[0], []).append(c[1])
    rows = []
    for X, args in ctors:
        if len(args) > 4 or len(set(args)) != len(args) or X in args:
            continue
        for r, Y in enumerate(args):
            rest = [a for k, a in enumerate(args) if k != r]
            want = sorted(rest + [X])
            for inv in have.get(Y, []):
                if sorted(inv) != want or len(set(inv)) != len(inv):
                    continue
                if len(args) == 1 and shape[X] < shape[Y]:
                    continue  # X(Y) drops components: only the embedding direction is a lossless round trip
                src = [(-1 if b == X else args.index(b)) for b in inv]
                rows.append((X, args, r, src, inv))
    return rows


def write_header(include, path):
    h = harvest(include)
    with open(path, "w") as f:
        f.write("// generated: harvested constructor / member-function relations and inverse constructor pairs.\n"
                "// Included by rel.cpp after its helper templates; every item is confirmed by a detection idiom.\n#pragma once\n")
        f.write("#define VERIF_N_CTORS %d\n#define VERIF_N_MEMBERS %d\n" % (len(h["ctors"]), len(h["members"])))
        f.write("#define VERIF_LOOSE_CTOR_CANDIDATES %d\n#define VERIF_LOOSE_MEMBER_CANDIDATES %d\n"
                % (h["loose_ctor_candidates"], h["loose_member_candidates"]))
        f.write("template <int Block> static void verif_ctors_c03(verif::Reporter& R) {\n")
        for i, (X, args) in enumerate(h["ctors"]):
            f.write("  if constexpr (%d %% kBlocks == Block) visit_ctor<PhQ::%s, %s>(R, %d, \"%s(%s)\");\n"
                    % (i, X, ", ".join("PhQ::" + a for a in args), i, X, ",".join(args)))
        f.write("}\n")
        f.write("template <int Block> static void verif_members_c03(verif::Reporter& R) {\n")
        for i, (owner, name, args, ret) in enumerate(h["members"]):
            what = "%s.%s(%s)" % (owner, name, ",".join(args))
            if not args:
                f.write("  if constexpr (%d %% kBlocks == Block) {\n"
                        "    auto f = [](const auto& o) -> decltype(o.%s()) { return o.%s(); };\n"
                        "    visit_member<PhQ::%s<T>, PhQ::%s<T>>(R, %d, \"%s\", f);\n  }\n"
                        % (i, name, name, ret, owner, i, what))
            else:
                f.write("  if constexpr (%d %% kBlocks == Block) {\n"
                        "    auto f = [](const auto& o, const auto& a) -> decltype(o.%s(a)) { return o.%s(a); };\n"
                        "    visit_member<PhQ::%s<T>, PhQ::%s<T>, PhQ::%s<T>>(R, %d, \"%s\", f);\n  }\n"
                        % (i, name, name, ret, owner, args[0], i, what))
        f.write("}\n")
        rows = inverse_pairs(h)
        f.write("#define VERIF_N_PAIRS %d\n" % len(rows))
        f.write("template <int Block> static void verif_pairs_c05(verif::Reporter& R) {\n")
        for i, (X, args, r, src, inv) in enumerate(rows):
            params = ", ".join(["const auto& c"] + ["const auto& a%d" % k for k in range(len(args))])
            call = ", ".join("c" if s < 0 else "a%d" % s for s in src)
            what = "%s(%s) from %s(%s)" % (args[r], ",".join(inv), X, ",".join(args))
            f.write("  if constexpr (%d %% kBlocks == Block) {\n"
                    "    auto inv = [](%s) -> decltype(PhQ::%s<T>(%s)) { return PhQ::%s<T>(%s); };\n"
                    "    c05_ctor_pair<PhQ::%s<T>, %d, %s>(R, %d, \"%s\", inv);\n  }\n"
                    % (i, params, args[r], call, args[r], call, X, r, ", ".join("PhQ::%s<T>" % a for a in args), i, what))
        f.write("}\n")
    return h


if __name__ == "__main__":
    import sys
    h = harvest(sys.argv[1] if len(sys.argv) > 1 else "/repo/include")
    print(len(h["ctors"]), "ctors;", {n: len([c for c in h["ctors"] if len(c[1]) == n]) for n in (1, 2, 3, 4)})
    print(len(h["members"]), "members;", h["loose_ctor_candidates"], h["loose_member_candidates"])
    for c in h["ctors"]:
        if len(c[1]) >= 3:
            print(c)
    for m in h["members"][:400]:
        if m[1] not in ("x", "y", "z", "xx", "xy", "xz", "yx", "yy", "yz", "zx", "zy", "zz", "Magnitude"):
            print(m)
