"""Generate type-list headers from the current /repo/include tree.

The file stem of every top-level header that defines `class <Stem> : public Dimension(al|less)<Shape>`
is a quantity class template; every header under Unit/ defines `enum class <Stem>`.  The generated
headers static_assert that each listed name really is what the generator thinks it is, so a harvest
mistake is a build failure of the monitor (inconclusive), never a false verdict."""
import os
import re

QRE = re.compile(r"^class\s+(\w+)\s*:\s*public\s+(Dimensional|Dimensionless)(Scalar|PlanarVector|Vector|SymmetricDyad|Dyad)<",
                 re.M)


def quantities(include):
    d = os.path.join(include, "PhQ")
    out = []
    for f in sorted(os.listdir(d)):
        if not f.endswith(".hpp"):
            continue
        stem = f[:-4]
        if stem.startswith("Dimension"):
            continue
        txt = open(os.path.join(d, f), errors="replace").read()
        for m in QRE.finditer(txt):
            if m.group(1) == stem:
                unit = None
                mu = re.search(r"class\s+%s\s*:\s*public\s+Dimensional\w+<Unit::(\w+)," % stem, txt)
                if mu:
                    unit = mu.group(1)
                out.append({"name": stem, "dimensional": m.group(2) == "Dimensional", "shape": m.group(3),
                            "unit": unit})
    return out


def unit_types(include):
    d = os.path.join(include, "PhQ", "Unit")
    out = []
    for f in sorted(os.listdir(d)):
        if f.endswith(".hpp"):
            txt = open(os.path.join(d, f), errors="replace").read()
            if re.search(r"enum\s+class\s+%s\b" % f[:-4], txt):
                out.append(f[:-4])
    return out


def headers(include):
    d = os.path.join(include, "PhQ")
    hs = []
    for root, dirs, files in os.walk(d):
        dirs.sort()
        for f in sorted(files):
            if f.endswith(".hpp"):
                hs.append(os.path.relpath(os.path.join(root, f), include))
    return hs


def generate(include, outdir):
    qs = quantities(include)
    us = unit_types(include)
    hs = headers(include)
    with open(os.path.join(outdir, "allhdr.hpp"), "w") as f:
        f.write("// generated: every header of the library\n#pragma once\n")
        for h in hs:
            f.write('#include "%s"\n' % h)
    with open(os.path.join(outdir, "allu.hpp"), "w") as f:
        f.write("// generated: the unit types\n#pragma once\n")
        for u in us:
            f.write('#include "PhQ/Unit/%s.hpp"\n' % u)
        f.write("#define VERIF_UNIT_TYPES(X) \\\n")
        f.write(" \\\n".join("  X(%s, %d)" % (u, i) for i, u in enumerate(us)))
        f.write("\n#define VERIF_N_UNIT_TYPES %d\n" % len(us))
    with open(os.path.join(outdir, "allq.hpp"), "w") as f:
        f.write("// generated: the quantity class templates\n#pragma once\n")
        f.write('#include "allhdr.hpp"\n')
        f.write("#define VERIF_QUANTITIES(X) \\\n")
        f.write(" \\\n".join("  X(%s, %d)" % (q["name"], i) for i, q in enumerate(qs)))
        f.write("\n#define VERIF_N_QUANTITIES %d\n" % len(qs))
        f.write("namespace verif {\n")
        f.write("template <template <typename> class... Q> struct QList { static constexpr int size = sizeof...(Q); };\n")
        f.write("using AllQ = QList<%s>;\n" % ", ".join("PhQ::" + q["name"] for q in qs))
        f.write("inline const char* const kQuantityNames[] = {%s};\n" % ", ".join('"%s"' % q["name"] for q in qs))
        f.write("}\n")
        for q in qs:
            f.write("static_assert(sizeof(PhQ::%s<double>) > 0, \"generated list: %s must be a complete class template\");\n"
                    % (q["name"], q["name"]))
    return qs, us
