// libFuzzer + ASan + UBSan target (clang++) for the two parsers, with the same oracles as the monitors:
//   byte 0 selects the parser; the rest is the string.
//   ParseNumber<T>: model on strtof/strtod/strtold + errno.   ParseEnumeration<E>: set membership in Spellings<E>.
#include <cerrno>
#include <cstdint>
#include <cstdio>
#include <cstdlib>
#include <cstring>
#include <string>

#include "PhQ/ConstitutiveModel.hpp"
#include "allu.hpp"

template <typename T> static T c_strto(const char* s, char** end);
template <> float c_strto<float>(const char* s, char** end) { return std::strtof(s, end); }
template <> double c_strto<double>(const char* s, char** end) { return std::strtod(s, end); }
template <> long double c_strto<long double>(const char* s, char** end) { return std::strtold(s, end); }

[[noreturn]] static void fail(const char* what, const std::string& s) {
  std::fprintf(stderr, "ORACLE-VIOLATION %s input=", what);
  for (unsigned char c : s) std::fprintf(stderr, "%02x", c);
  std::fprintf(stderr, "\n");
  std::abort();
}

template <typename T>
static void number(const std::string& s, const char* what) {
  std::optional<T> got;
  try {
    got = PhQ::ParseNumber<T>(s);
  } catch (...) {
    fail(what, s);
  }
  char* end = nullptr;
  errno = 0;
  const T v = c_strto<T>(s.c_str(), &end);
  const bool want = end != s.c_str() && errno != ERANGE;
  if (got.has_value() != want) fail(what, s);
  if (want && std::memcmp(&got.value(), &v, sizeof(T) == 16 ? 10 : sizeof(T)) != 0 && !(v != v && got.value() != got.value())) fail(what, s);
}

template <typename E>
static void enumeration(const std::string& s, const char* what) {
  std::optional<E> got;
  try {
    got = PhQ::ParseEnumeration<E>(std::string_view(s.data(), s.size()));
  } catch (...) {
    fail(what, s);
  }
  const auto& table = PhQ::Internal::Spellings<E>;
  const auto it = table.find(std::string_view(s.data(), s.size()));
  if (got.has_value() != (it != table.end())) fail(what, s);
  if (got.has_value() && got.value() != it->second) fail(what, s);
  if (got.has_value() && PhQ::Internal::Abbreviations<E>.count(got.value()) != 1) fail(what, s);
}

extern "C" int LLVMFuzzerTestOneInput(const uint8_t* data, size_t size) {
  if (size == 0) return 0;
  const unsigned sel = data[0] % (3 + VERIF_N_UNIT_TYPES + 2);
  const std::string s(reinterpret_cast<const char*>(data + 1), size - 1);
  if (sel == 0) return number<float>(s, "ParseNumber<float>"), 0;
  if (sel == 1) return number<double>(s, "ParseNumber<double>"), 0;
  if (sel == 2) return number<long double>(s, "ParseNumber<long double>"), 0;
#define X(U, I)                                                   \
  if (sel == 3 + (I)) return enumeration<PhQ::Unit::U>(s, "ParseEnumeration<" #U ">"), 0;
  VERIF_UNIT_TYPES(X)
#undef X
  if (sel == 3 + VERIF_N_UNIT_TYPES) return enumeration<PhQ::UnitSystem>(s, "ParseEnumeration<UnitSystem>"), 0;
  return enumeration<PhQ::ConstitutiveModel::Type>(s, "ParseEnumeration<ConstitutiveModel::Type>"), 0;
}
