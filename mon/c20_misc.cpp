// C20 (a'): cheap sanitizer probes of call shapes that the numeric monitors do not reach in the quick tier:
// conversions of EMPTY and one-element containers between every pair of units (a reference bound to
// values[0] of an empty vector is undefined behaviour), and default-constructed string views given to the parser.
#include "PhQ/Unit/Length.hpp"
#include "PhQ/Unit/Pressure.hpp"
#include "PhQ/Unit/Temperature.hpp"
#include "common/reflect.hpp"
#include "common/verif.hpp"

using namespace verif;

template <typename U, typename T>
static void containers(Reporter& R, const char* tname) {
  const auto& units = Enumerators<U>::get();
  for (auto& pf : units) {
    for (auto& pt : units) {
      const U from = static_cast<U>(pf.first), to = static_cast<U>(pt.first);
      const std::string key = std::string("C20|containers|") + tname + "|" + pf.second + "->" + pt.second + "|" + Num<T>::name;
      if ((from != PhQ::Standard<U> && PhQ::Internal::MapOfConversionsToStandard<U, T>.count(from) == 0) ||
          (to != PhQ::Standard<U> && PhQ::Internal::MapOfConversionsFromStandard<U, T>.count(to) == 0)) {
        continue;
      }
      R.crumb(key);
      guarded(R, key, [&] {
        for (size_t len : {size_t(0), size_t(1), size_t(2)}) {
          std::vector<T> v(len, static_cast<T>(1.5));
          const std::vector<T> empty_capacity;  // no storage at all
          std::vector<T> w = PhQ::Convert(len == 0 ? empty_capacity : v, from, to);
          PhQ::ConvertInPlace(v, from, to);
          R.eval();
          if (w.size() != len || v.size() != len) R.violation(key + "|size", J().i("length", len).str());
          for (size_t i = 0; i < len; ++i) {
            if (!same_value_bits(w[i], v[i]) || !same_value_bits(v[i], PhQ::Convert(static_cast<T>(1.5), from, to))) {
              R.violation(key + "|value", J().i("length", len).num("copying", w[i]).num("in_place", v[i]).str());
            }
          }
        }
        std::vector<T> reserved;
        reserved.reserve(8);  // storage but no elements
        PhQ::ConvertInPlace(reserved, from, to);
        std::array<T, 1> one{static_cast<T>(-2.5)};
        PhQ::ConvertInPlace(one, from, to);
        R.eval();
        if (!same_value_bits(one[0], PhQ::Convert(static_cast<T>(-2.5), from, to))) R.violation(key + "|array<1>", "{}");
      });
      R.nontrivial(hash_str(key));
    }
  }
}

template <typename U>
static void views(Reporter& R, const char* tname) {
  const std::string key = std::string("C20|string-views|") + tname;
  R.crumb(key);
  guarded(R, key, [&] {
    R.eval(3);
    if (PhQ::ParseEnumeration<U>(std::string_view{}).has_value()) R.violation(key + "|default-view-accepted", "{}");
    // a view that is not followed by a NUL: exactly-sized heap buffer (ASan sees any over-read)
    for (auto& kv : PhQ::Internal::Spellings<U>) {
      const std::string_view sp = kv.first;
      char* buf = new char[sp.size()];
      std::memcpy(buf, sp.data(), sp.size());
      const auto got = PhQ::ParseEnumeration<U>(std::string_view(buf, sp.size()));
      R.eval();
      if (!got.has_value() || got.value() != kv.second) R.violation(key + "|exact-size-view", J().s("spelling", std::string(sp)).str());
      if (sp.size() > 1) {
        const auto shorter = PhQ::ParseEnumeration<U>(std::string_view(buf, sp.size() - 1));
        const bool is_spelling = PhQ::Internal::Spellings<U>.count(std::string_view(buf, sp.size() - 1)) == 1;
        if (shorter.has_value() != is_spelling) R.violation(key + "|prefix-view", J().s("spelling", std::string(sp)).str());
      }
      delete[] buf;
    }
  });
  R.nontrivial(hash_str(key));
}

int main(int argc, char** argv) {
  Args A = parse_args(argc, argv);
  Reporter R(A.out);
  containers<PhQ::Unit::Length, float>(R, "Length");
  containers<PhQ::Unit::Length, double>(R, "Length");
  containers<PhQ::Unit::Length, long double>(R, "Length");
  containers<PhQ::Unit::Temperature, double>(R, "Temperature");
  containers<PhQ::Unit::Pressure, long double>(R, "Pressure");
  views<PhQ::Unit::Length>(R, "Length");
  views<PhQ::Unit::Pressure>(R, "Pressure");
  views<PhQ::Unit::Temperature>(R, "Temperature");
  if (R.want_sample()) R.sample(J().s("probe", "empty std::vector converted Length::Foot -> Length::Inch in place and by copy").i("resulting_size", 0).str());
  return R.finish();
}
