// C20 (c): PhQ::ParseNumber<T> is total on arbitrary byte strings: it returns a value or nothing, never
// throws, and agrees with a model written directly on strtof/strtod/strtold + errno (a value iff at least
// one character converted and no ERANGE).
#include <cerrno>
#include <cstdlib>

#include "PhQ/Base.hpp"
#include "common/verif.hpp"

using namespace verif;

template <typename T> static T c_strto(const char* s, char** end);
template <> float c_strto<float>(const char* s, char** end) { return std::strtof(s, end); }
template <> double c_strto<double>(const char* s, char** end) { return std::strtod(s, end); }
template <> long double c_strto<long double>(const char* s, char** end) { return std::strtold(s, end); }

template <typename T>
static std::optional<T> model(const std::string& s) {
  char* end = nullptr;
  errno = 0;
  const T v = c_strto<T>(s.c_str(), &end);
  if (end == s.c_str()) return std::nullopt;
  if (errno == ERANGE) return std::nullopt;
  return v;
}

template <typename T>
static void probe(Reporter& R, const std::string& s, const char* cls) {
  const std::string key = std::string("C20|ParseNumber<") + Num<T>::name + ">";
  std::optional<T> got;
  R.eval();
  if (!guarded(R, key, [&] { got = PhQ::ParseNumber<T>(s); })) return;
  const std::optional<T> want = model<T>(s);
  const bool same = got.has_value() == want.has_value() && (!got.has_value() || same_value_bits(got.value(), want.value()));
  if (!same) {
    R.violation(key + "|" + cls, J().sb("string", s.substr(0, 200)).s("class", cls)
                                     .s("got", got.has_value() ? bits(got.value()) : "nullopt")
                                     .s("model", want.has_value() ? bits(want.value()) : "nullopt").str());
  }
  R.count(got.has_value() ? "parsed_to_value" : "parsed_to_nothing");
  R.nontrivial(hash_str(key + cls + (got.has_value() ? "v" : "n")));
  if (R.want_sample() && (R.evaluations % 7919) == 0) {
    R.sample(J().sb("string", s.substr(0, 60)).s("class", cls).s("numeric_type", Num<T>::name)
                 .s("result", got.has_value() ? dec(got.value()) : "nullopt").str());
  }
}

static std::string gen(Rng& rng, int cls) {
  static const char* words[] = {"inf", "INF", "-inf", "infinity", "nan", "NaN", "-nan", "nan(0x12)", "0x1.8p3", "0X1P-1074", "0x", "0x.p1",
                                "1e", "1e+", ".", "-", "+", "e5", "1e400", "1e-400", "1e-310", "4.9e-324", "1e39", "1e-46", "1e4932", "1e-4951",
                                "1,5", "1.5abc", "  42", "\t\n-3.5", "1 2", "", " ", "0", "-0", "+.5e-1", "1e0001", "00012", "1__2", "١٢٣", "1.0f",
                                "1.7976931348623159e308", "3.4028236e38", "1.18973149535723176502e+4932"};
  std::string s;
  switch (cls) {
    case 0: return words[rng.below(sizeof words / sizeof *words)];
    case 1: {  // well-formed decimal
      if (rng.coin()) s += rng.coin() ? "-" : "+";
      for (int i = rng.range(0, 25); i > 0; --i) s += static_cast<char>('0' + rng.below(10));
      if (rng.coin()) {
        s += ".";
        for (int i = rng.range(0, 25); i > 0; --i) s += static_cast<char>('0' + rng.below(10));
      }
      if (rng.coin()) {
        s += rng.coin() ? "e" : "E";
        if (rng.coin()) s += rng.coin() ? "-" : "+";
        s += std::to_string(rng.range(0, 5200));
      }
      return s;
    }
    case 2: {  // bytes from a number-ish alphabet
      static const char alpha[] = "0123456789+-.eExXpPnNaAiIfF \t";
      for (int i = rng.range(0, 16); i > 0; --i) s += alpha[rng.below(sizeof alpha - 1)];
      return s;
    }
    case 3: {  // arbitrary bytes, including NUL and non-ASCII
      for (int i = rng.range(0, 24); i > 0; --i) s += static_cast<char>(rng.below(256));
      return s;
    }
    case 4: {  // what PhQ::Print emits, then damaged
      s = PhQ::Print(rng.logu<double>(-60, 60, true));
      const int k = rng.range(0, 3);
      if (k == 1 && !s.empty()) s.erase(rng.below(s.size()), 1);
      if (k == 2) s.insert(rng.below(s.size() + 1), 1, static_cast<char>(rng.below(256)));
      if (k == 3) s.push_back('\0');
      return s;
    }
    default: {  // long strings
      const size_t n = 1000 + rng.below(9000);
      const int k = rng.range(0, 3);
      if (k == 0) return std::string(n, '9');
      if (k == 1) return "0." + std::string(n, '0') + "1";
      if (k == 2) return std::string(n, ' ') + "7";
      return "1e" + std::string(n, '0') + "5";
    }
  }
}

int main(int argc, char** argv) {
  Args A = parse_args(argc, argv);
  Reporter R(A.out);
  Rng rng(mix(A.seed, 0xC20 + A.shard));
  static const char* cls[] = {"special-words", "well-formed", "numeric-alphabet", "random-bytes", "damaged-print", "long"};
  const long long n = A.n("strings", A.thorough() ? 3000000 : 60000) / A.nshards;
  R.crumb("C20|ParseNumber");
  for (long long i = 0; i < n; ++i) {
    const int c = i % 97 == 0 ? 5 : static_cast<int>(i % 5);
    const std::string s = gen(rng, c);
    probe<float>(R, s, cls[c]);
    probe<double>(R, s, cls[c]);
    probe<long double>(R, s, cls[c]);
  }
  // every special word at least once
  if (A.shard == 0) {
    for (int k = 0; k < 400; ++k) {
      const std::string s = gen(rng, 0);
      probe<float>(R, s, cls[0]);
      probe<double>(R, s, cls[0]);
      probe<long double>(R, s, cls[0]);
    }
  }
  return R.finish();
}
