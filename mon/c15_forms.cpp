// C15 (composite level): record Print/JSON/XML/YAML/stream of every quantity type in every unit, together
// with the number strings and abbreviation they must consist of.  The python checker decides offline
// (component order, abbreviation, stream == print, JSON validity and field names).
#include <iomanip>
#include <sstream>

#include "allq.hpp"
#include "common/parts.hpp"
#include "common/reflect.hpp"
#include "common/traits.hpp"

using namespace verif;

#if VERIF_PART == 0
std::ofstream* g_log = nullptr;
#else
extern std::ofstream* g_log;
#endif

static void emit(Reporter& R, const std::string& q, const char* tn, int n, bool dimensional, const std::string& form,
                 const std::string& unit, const std::string& text, const std::vector<std::string>& numbers,
                 const std::string& abbr) {
  R.eval();
  (*g_log) << J().s("q", q).s("T", tn).i("n", n).i("dimensional", dimensional).s("form", form).s("unit", unit)
                  .sb("text", text).raw("numbers", jlist(numbers)).s("abbr", abbr).str()
           << "\n";
}

template <typename T, size_t N>
static std::vector<std::string> number_strings(const std::array<T, N>& a) {
  std::vector<std::string> v;
  for (auto x : a) v.push_back(PhQ::Print(x));
  return v;
}

template <typename T, size_t N>
static std::array<T, N> make_values(Rng& rng) {
  // pairwise distinct slot values drawn from different notation intervals, both signs
  static const int exps[] = {-7, -4, -3, -2, -1, 0, 1, 2, 3, 4, 5, 9};
  std::array<T, N> a;
  const int off = static_cast<int>(rng.below(12));
  for (size_t i = 0; i < N; ++i) {
    T m = static_cast<T>(1.2345678901234567890L) + static_cast<T>(i) * static_cast<T>(0.71) + static_cast<T>(rng.unit());
    T v = m * static_cast<T>(std::pow(10.0L, exps[(off + 5 * i) % 12]));
    a[i] = rng.below(3) == 0 ? -v : v;
  }
  return a;
}

template <typename Q>
static std::string streamed(const Q& q) {
  std::ostringstream os;
  os << q;
  return os.str();
}

// "streaming equals printing" in every stream state: with a field width, fill and adjustment in effect the object is
// inserted as one string, exactly like its Print() text
template <typename Q>
static void stream_with_width(Reporter& R, const std::string& key, const Q& q) {
  for (int k = 0; k < 2; ++k) {
    std::ostringstream a, b;
    a << std::setfill(k ? '*' : ' ') << (k ? std::left : std::right) << std::setw(220);
    b << std::setfill(k ? '*' : ' ') << (k ? std::left : std::right) << std::setw(220);
    a << q << "|" << 7;
    b << q.Print() << "|" << 7;
    R.eval();
    if (a.str() != b.str()) {
      R.violation(key + "|stream-differs-from-print-under-field-width",
                  J().s("adjustment", k ? "left" : "right").sb("streamed", a.str()).sb("print_streamed", b.str()).str());
      return;
    }
  }
  R.count("stream_with_field_width_probes");
}

template <template <typename> class QT, typename T>
static void forms(Reporter& R, const Args& A, const char* name, uint64_t qindex) {
  using Q = QT<T>;
  constexpr size_t N = n_of<Q>;
  const char* tn = Num<T>::name;
  const int sets = static_cast<int>(A.n("sets", A.thorough() ? 24 : 2));
  Rng rng(mix(mix(A.seed, 0xC15F), mix(qindex, Num<T>::idx)));
  for (int s = 0; s < sets; ++s) {
    const auto vals = make_values<T, N>(rng);
    const std::string key = std::string("C15|forms|") + name + "|" + tn;
    R.crumb(key);
    guarded(R, key, [&] {
      const Q q = from_si<Q>(vals);
      const auto stored = to_si(q);
      const auto nums = number_strings(stored);
      constexpr bool dim = has_unit<Q>::value;
      std::string abbr0;
      if constexpr (dim) abbr0 = std::string(PhQ::Abbreviation(Q::Unit()));
      emit(R, name, tn, N, dim, "Print", "", q.Print(), nums, abbr0);
      emit(R, name, tn, N, dim, "JSON", "", q.JSON(), nums, abbr0);
      emit(R, name, tn, N, dim, "XML", "", q.XML(), nums, abbr0);
      emit(R, name, tn, N, dim, "YAML", "", q.YAML(), nums, abbr0);
      emit(R, name, tn, N, dim, "stream", "", streamed(q), nums, abbr0);
      stream_with_width(R, key, q);
      R.nontrivial(hash_str(key));
      if constexpr (dim) {
        using U = unit_t<Q>;
        for (auto& p : Enumerators<U>::get()) {
          const U u = static_cast<U>(p.first);
          if (PhQ::Internal::Abbreviations<U>.count(u) == 0 ||
              PhQ::Internal::MapOfConversionsFromStandard<U, T>.count(u) == 0) {
            R.list("units_skipped_missing_table_row", std::string(name) + ":" + p.second);
            continue;
          }
          const auto nu = number_strings(to_arr(q.Value(u)));
          const std::string ab{PhQ::Abbreviation(u)};
          emit(R, name, tn, N, dim, "Print(unit)", p.second, q.Print(u), nu, ab);
          emit(R, name, tn, N, dim, "JSON(unit)", p.second, q.JSON(u), nu, ab);
          emit(R, name, tn, N, dim, "XML(unit)", p.second, q.XML(u), nu, ab);
          emit(R, name, tn, N, dim, "YAML(unit)", p.second, q.YAML(u), nu, ab);
          R.nontrivial(hash_str(key + "|" + p.second));
        }
      }
    });
  }
  R.count(std::string("quantity_types_") + tn);
}

template <typename V>
static void raw_shape(Reporter& R, const Args& A, const char* name) {
  using T = typename Shape<V>::T;
  constexpr size_t N = Shape<V>::n;
  Rng rng(mix(mix(A.seed, 0xC15E), mix(N, Num<T>::idx)));
  for (int s = 0; s < (A.thorough() ? 24 : 2); ++s) {
    const auto vals = make_values<T, N>(rng);
    const V v = FromArr<V>::make(vals);
    const auto nums = number_strings(to_arr(v));
    emit(R, name, Num<T>::name, N, false, "Print", "", v.Print(), nums, "");
    emit(R, name, Num<T>::name, N, false, "JSON", "", v.JSON(), nums, "");
    emit(R, name, Num<T>::name, N, false, "XML", "", v.XML(), nums, "");
    emit(R, name, Num<T>::name, N, false, "YAML", "", v.YAML(), nums, "");
    emit(R, name, Num<T>::name, N, false, "stream", "", streamed(v), nums, "");
    stream_with_width(R, std::string("C15|forms|") + name + "|" + Num<T>::name, v);
    R.nontrivial(hash_str(std::string(name) + Num<T>::name));
  }
}

void VERIF_THIS_PART(Reporter& R, const Args& A) {
#define X(Q, I)                                   \
  if constexpr (VERIF_IN_PART(I)) {               \
    if (A.mine(I)) {                              \
      forms<PhQ::Q, float>(R, A, #Q, I);          \
      forms<PhQ::Q, double>(R, A, #Q, I);         \
      forms<PhQ::Q, long double>(R, A, #Q, I);    \
    }                                             \
  }
  VERIF_QUANTITIES(X)
#undef X
#if VERIF_PART == 0
  if (A.shard == 0) {
    for_each_numeric([&](auto t) {
      using T = decltype(t);
      raw_shape<PhQ::PlanarVector<T>>(R, A, "PlanarVector");
      raw_shape<PhQ::Vector<T>>(R, A, "Vector");
      raw_shape<PhQ::SymmetricDyad<T>>(R, A, "SymmetricDyad");
      raw_shape<PhQ::Dyad<T>>(R, A, "Dyad");
    });
  }
#endif
}

#if VERIF_PART == 0
int main(int argc, char** argv) {
  Args A = parse_args(argc, argv);
  Reporter R(A.out);
  std::ofstream log(A.out + "/events.jsonl");
  g_log = &log;
  verif_run_parts(R, A);
  log.close();
  return R.finish();
}
#endif
