// C08 (c): strings that are not accepted spellings parse to nothing; accepted ones parse to the table's
// enumerator, which must be a declared enumerator.  Oracle: set membership in the spelling table.
// Also: every declared unit converts to the standard unit and back (dispatch look-ups checked first).
#include <set>

#include "PhQ/ConstitutiveModel.hpp"
#include "allu.hpp"
#include "common/parts.hpp"
#include "common/reflect.hpp"
#include "common/verif.hpp"

using namespace verif;

static std::string mutate(Rng& rng, const std::string& s, int kind) {
  std::string r = s;
  const size_t n = r.size();
  switch (kind) {
    case 0:  // flip the case of one ASCII letter
      for (size_t tries = 0; tries < 8 && n; ++tries) {
        size_t i = rng.below(n);
        unsigned char c = r[i];
        if (std::isalpha(c) && c < 0x80) {
          r[i] = std::islower(c) ? std::toupper(c) : std::tolower(c);
          break;
        }
      }
      break;
    case 1:  // insert a byte
      r.insert(r.begin() + rng.below(n + 1), static_cast<char>(rng.below(256)));
      break;
    case 2:  // delete a byte (may truncate a multi-byte μ, °, ·)
      if (n) r.erase(r.begin() + rng.below(n));
      break;
    case 3:  // duplicate a byte
      if (n) {
        size_t i = rng.below(n);
        r.insert(r.begin() + i, r[i]);
      }
      break;
    case 4: r = " " + r; break;
    case 5: r = r + " "; break;
    case 6: r.push_back('\0'); break;
    case 7:  // swap adjacent bytes
      if (n > 1) {
        size_t i = rng.below(n - 1);
        std::swap(r[i], r[i + 1]);
      }
      break;
    case 8:  // truncate
      if (n) r.resize(rng.below(n));
      break;
    case 9:  // all upper / all lower
      for (auto& c : r) {
        if (static_cast<unsigned char>(c) < 0x80) c = rng.coin() ? std::toupper(c) : std::tolower(c);
      }
      break;
    case 10:  // replace one byte
      if (n) r[rng.below(n)] = static_cast<char>(rng.below(256));
      break;
    case 11: r = r + r; break;
    case 12: r = "\t" + r + "\n"; break;
    default: break;
  }
  return r;
}
static const int kKinds = 13;
static const char* kKindNames[kKinds] = {"case-flip", "insert-byte", "delete-byte", "duplicate-byte", "leading-space",
                                        "trailing-space", "append-NUL", "swap-adjacent", "truncate", "random-case",
                                        "replace-byte", "doubled", "tab-newline"};

static std::vector<std::string> g_foreign;  // spellings of all types, for cross-type probing

template <typename E>
static void probe(Reporter& R, const char* tname, const std::set<std::string>& accepted,
                  const std::map<std::string, E>& table, const std::string& s, const std::string& kind) {
  R.eval();
  std::optional<E> got;
  const std::string key = std::string("C08|type=") + tname;
  if (!guarded(R, key + "|parse", [&] { got = PhQ::ParseEnumeration<E>(std::string_view(s.data(), s.size())); })) return;
  const bool in = accepted.count(s) == 1;
  if (in) {
    R.count("accepted_probes");
    if (!got.has_value() || got.value() != table.at(s)) {
      R.violation(key + "|accepted-spelling-not-parsed", J().sb("string", s).s("kind", kind).str());
    }
  } else {
    R.count("rejected_probes");
    if (got.has_value()) {
      R.violation(key + "|non-spelling-accepted|" + kind,
                  J().sb("string", s).s("kind", kind).i("parsed_as", static_cast<int>(got.value())).str());
    }
  }
  if (got.has_value() && !Enumerators<E>::named(got.value())) {
    R.violation(key + "|parsed-unnamed-enumerator", J().sb("string", s).i("value", static_cast<int>(got.value())).str());
  }
}

template <typename E>
static void run_type(Reporter& R, const Args& A, const char* tname, uint64_t tindex) {
  Rng rng(mix(A.seed, 0xC08000 + tindex));
  std::set<std::string> accepted;
  std::map<std::string, E> table;
  for (auto& kv : PhQ::Internal::Spellings<E>) {
    accepted.insert(std::string(kv.first));
    table[std::string(kv.first)] = kv.second;
  }
  R.count("spellings", static_cast<long long>(accepted.size()));
  R.crumb(std::string("C08|type=") + tname + "|parse");
  std::vector<std::string> acc(accepted.begin(), accepted.end());
  const long long per_type = A.n("strings", A.thorough() ? 60000 : 3000);
  // the accepted spellings themselves
  for (auto& s : acc) probe<E>(R, tname, accepted, table, s, "accepted");
  probe<E>(R, tname, accepted, table, "", "empty");
  if (acc.empty()) return;
  // every accepted spelling under every mutation kind at least once, then random picks
  long long done = 0;
  for (int k = 0; k < kKinds; ++k) {
    for (auto& s : acc) {
      probe<E>(R, tname, accepted, table, mutate(rng, s, k), kKindNames[k]);
      ++done;
    }
    R.nontrivial(mix(tindex, k));
  }
  for (; done < per_type; ++done) {
    const int k = rng.range(0, kKinds - 1);
    std::string s = mutate(rng, acc[rng.below(acc.size())], k);
    if (rng.below(4) == 0) s = mutate(rng, s, rng.range(0, kKinds - 1));  // two edits
    probe<E>(R, tname, accepted, table, s, kKindNames[k]);
  }
  // random byte strings, including NUL and non-ASCII
  for (long long i = 0; i < per_type / 4; ++i) {
    std::string s;
    const int len = rng.range(0, 12);
    for (int j = 0; j < len; ++j) s.push_back(static_cast<char>(rng.below(256)));
    probe<E>(R, tname, accepted, table, s, "random-bytes");
  }
  R.nontrivial(mix(tindex, 100));
  // spellings of other enumeration types
  for (long long i = 0; i < per_type / 4 && !g_foreign.empty(); ++i) {
    probe<E>(R, tname, accepted, table, g_foreign[rng.below(g_foreign.size())], "foreign-spelling");
  }
  R.nontrivial(mix(tindex, 101));
  // very long strings
  for (int i = 0; i < 3; ++i) {
    std::string s(10000 + i, 'm');
    probe<E>(R, tname, accepted, table, s, "long");
    probe<E>(R, tname, accepted, table, acc[rng.below(acc.size())] + std::string(5000, '\0'), "long-NUL");
  }
}

// every declared unit converts to the standard unit and back (C08 a)
template <typename U, typename T>
static void there_and_back(Reporter& R, const char* tname) {
  const auto& to = PhQ::Internal::MapOfConversionsToStandard<U, T>;
  const auto& from = PhQ::Internal::MapOfConversionsFromStandard<U, T>;
  for (auto& p : Enumerators<U>::get()) {
    const U u = static_cast<U>(p.first);
    const std::string key = std::string("C08|type=") + tname + "|unit=" + p.second + "|" + Num<T>::name;
    R.eval();
    auto i1 = to.find(u);
    auto i2 = from.find(u);
    if (i1 == to.end() || i2 == from.end() || !i1->second || !i2->second) {
      R.violation(std::string("C08|type=") + tname + "|unit=" + p.second + "|missing-conversion-dispatch",
                  J().s("numeric_type", Num<T>::name).i("to", i1 != to.end()).i("from", i2 != from.end()).str());
      continue;
    }
    R.crumb(key + "|convert");
    guarded(R, key, [&] {
      const T x = static_cast<T>(1.2345678901234567890L);
      const T s = PhQ::Convert(x, u, PhQ::Standard<U>);
      const T b = PhQ::Convert(s, PhQ::Standard<U>, u);
      // Only "it converts there and back": the error is measured at the scale of the larger of the value and
      // its standard-unit image (the affine temperature scales cancel), the tight bound is C01's business.
      const f128 scale = fabsq(static_cast<f128>(s)) > fabsq(static_cast<f128>(x)) ? static_cast<f128>(s) : static_cast<f128>(x);
      const double err = static_cast<double>(fabsq(static_cast<f128>(b) - static_cast<f128>(x)) / ulp_at<T>(scale));
      R.maxi(std::string("there_and_back_ulps_") + Num<T>::name, err);
      if (!(err <= 64.0) || !std::isfinite(static_cast<long double>(s))) {
        R.violation(std::string("C08|type=") + tname + "|unit=" + p.second + "|there-and-back",
                    J().s("numeric_type", Num<T>::name).num("x", x).num("standard", s).num("back", b).str());
      }
    });
    R.nontrivial(hash_str(key));
  }
}

static void fill_foreign() {
  if (!g_foreign.empty()) return;
#define X(U, I)                                                                         \
  for (auto& kv : PhQ::Internal::Spellings<PhQ::Unit::U>) g_foreign.emplace_back(kv.first);
  VERIF_UNIT_TYPES(X)
#undef X
  for (auto& kv : PhQ::Internal::Spellings<PhQ::UnitSystem>) g_foreign.emplace_back(kv.first);
  for (auto& kv : PhQ::Internal::Spellings<PhQ::ConstitutiveModel::Type>) g_foreign.emplace_back(kv.first);
  std::sort(g_foreign.begin(), g_foreign.end());
}

void VERIF_THIS_PART(Reporter& R, const Args& A) {
  fill_foreign();
#define X(U, I)                                               \
  if constexpr (VERIF_IN_PART(I)) {                           \
    if (A.mine(I)) {                                          \
      run_type<PhQ::Unit::U>(R, A, #U, I);                    \
      there_and_back<PhQ::Unit::U, float>(R, #U);             \
      there_and_back<PhQ::Unit::U, double>(R, #U);            \
      there_and_back<PhQ::Unit::U, long double>(R, #U);       \
      R.count("enum_types");                                  \
    }                                                         \
  }
  VERIF_UNIT_TYPES(X)
#undef X
#if VERIF_PART == 0
  if (A.mine(VERIF_N_UNIT_TYPES)) {
    run_type<PhQ::UnitSystem>(R, A, "UnitSystem", VERIF_N_UNIT_TYPES);
    R.count("enum_types");
  }
  if (A.mine(VERIF_N_UNIT_TYPES + 1)) {
    run_type<PhQ::ConstitutiveModel::Type>(R, A, "ConstitutiveModel::Type", VERIF_N_UNIT_TYPES + 1);
    R.count("enum_types");
  }
#endif
}

#if VERIF_PART == 0
int main(int argc, char** argv) {
  Args A = parse_args(argc, argv);
  Reporter R(A.out);
  verif_run_parts(R, A);
  return R.finish();
}
#endif
