// C18: named physical definitions evaluate their textbook formulas.
//
// A fixed table, one row per definitional relation (constructor, operator or member-function spelling, and every
// inverse form the library offers).  Each row = a name, the library call (guarded by a detection idiom: a generic
// lambda with a decltype return type tested with std::is_invocable, so that a removed or renamed relation -- or a
// removed class, every class is forward-declared below and its header included under __has_include -- is *reported*
// as absent instead of breaking the build), and the same formula written on binary128.
//
// Inputs: independent positive values, log-uniform over +-20 decades (double, long double) / +-6 decades (float), plus
// three further classes (moderate, near-equal, near-one) that drive the subtractive formulas into cancellation.
// Bound: |got - ref| <= 4 ulp_T(ref) for product/quotient/root formulas; |got - ref| <= 4 (ulp_T(ref) + Delta) for
// formulas that subtract (Delta = largest change of the binary128 reference when one input moves by one ulp of T).
// Tensor-valued rows are checked slot by slot.
#include <map>
#include <tuple>
#include <utility>

#if __has_include("PhQ/DisplacementGradient.hpp")
#include "PhQ/DisplacementGradient.hpp"
#endif
#if __has_include("PhQ/DynamicKinematicPressure.hpp")
#include "PhQ/DynamicKinematicPressure.hpp"
#endif
#if __has_include("PhQ/DynamicPressure.hpp")
#include "PhQ/DynamicPressure.hpp"
#endif
#if __has_include("PhQ/DynamicViscosity.hpp")
#include "PhQ/DynamicViscosity.hpp"
#endif
#if __has_include("PhQ/Frequency.hpp")
#include "PhQ/Frequency.hpp"
#endif
#if __has_include("PhQ/GasConstant.hpp")
#include "PhQ/GasConstant.hpp"
#endif
#if __has_include("PhQ/HeatCapacityRatio.hpp")
#include "PhQ/HeatCapacityRatio.hpp"
#endif
#if __has_include("PhQ/IsentropicBulkModulus.hpp")
#include "PhQ/IsentropicBulkModulus.hpp"
#endif
#if __has_include("PhQ/IsobaricHeatCapacity.hpp")
#include "PhQ/IsobaricHeatCapacity.hpp"
#endif
#if __has_include("PhQ/IsochoricHeatCapacity.hpp")
#include "PhQ/IsochoricHeatCapacity.hpp"
#endif
#if __has_include("PhQ/KinematicViscosity.hpp")
#include "PhQ/KinematicViscosity.hpp"
#endif
#if __has_include("PhQ/Length.hpp")
#include "PhQ/Length.hpp"
#endif
#if __has_include("PhQ/LinearThermalExpansionCoefficient.hpp")
#include "PhQ/LinearThermalExpansionCoefficient.hpp"
#endif
#if __has_include("PhQ/MachNumber.hpp")
#include "PhQ/MachNumber.hpp"
#endif
#if __has_include("PhQ/MassDensity.hpp")
#include "PhQ/MassDensity.hpp"
#endif
#if __has_include("PhQ/PlanarTraction.hpp")
#include "PhQ/PlanarTraction.hpp"
#endif
#if __has_include("PhQ/PrandtlNumber.hpp")
#include "PhQ/PrandtlNumber.hpp"
#endif
#if __has_include("PhQ/ReynoldsNumber.hpp")
#include "PhQ/ReynoldsNumber.hpp"
#endif
#if __has_include("PhQ/ScalarStrain.hpp")
#include "PhQ/ScalarStrain.hpp"
#endif
#if __has_include("PhQ/ScalarStress.hpp")
#include "PhQ/ScalarStress.hpp"
#endif
#if __has_include("PhQ/ScalarThermalConductivity.hpp")
#include "PhQ/ScalarThermalConductivity.hpp"
#endif
#if __has_include("PhQ/SoundSpeed.hpp")
#include "PhQ/SoundSpeed.hpp"
#endif
#if __has_include("PhQ/SpecificGasConstant.hpp")
#include "PhQ/SpecificGasConstant.hpp"
#endif
#if __has_include("PhQ/SpecificIsobaricHeatCapacity.hpp")
#include "PhQ/SpecificIsobaricHeatCapacity.hpp"
#endif
#if __has_include("PhQ/SpecificIsochoricHeatCapacity.hpp")
#include "PhQ/SpecificIsochoricHeatCapacity.hpp"
#endif
#if __has_include("PhQ/Speed.hpp")
#include "PhQ/Speed.hpp"
#endif
#if __has_include("PhQ/StaticKinematicPressure.hpp")
#include "PhQ/StaticKinematicPressure.hpp"
#endif
#if __has_include("PhQ/StaticPressure.hpp")
#include "PhQ/StaticPressure.hpp"
#endif
#if __has_include("PhQ/Strain.hpp")
#include "PhQ/Strain.hpp"
#endif
#if __has_include("PhQ/StrainRate.hpp")
#include "PhQ/StrainRate.hpp"
#endif
#if __has_include("PhQ/Stress.hpp")
#include "PhQ/Stress.hpp"
#endif
#if __has_include("PhQ/Temperature.hpp")
#include "PhQ/Temperature.hpp"
#endif
#if __has_include("PhQ/TemperatureDifference.hpp")
#include "PhQ/TemperatureDifference.hpp"
#endif
#if __has_include("PhQ/ThermalDiffusivity.hpp")
#include "PhQ/ThermalDiffusivity.hpp"
#endif
#if __has_include("PhQ/Time.hpp")
#include "PhQ/Time.hpp"
#endif
#if __has_include("PhQ/TotalKinematicPressure.hpp")
#include "PhQ/TotalKinematicPressure.hpp"
#endif
#if __has_include("PhQ/TotalPressure.hpp")
#include "PhQ/TotalPressure.hpp"
#endif
#if __has_include("PhQ/Traction.hpp")
#include "PhQ/Traction.hpp"
#endif
#if __has_include("PhQ/VelocityGradient.hpp")
#include "PhQ/VelocityGradient.hpp"
#endif
#if __has_include("PhQ/VolumetricThermalExpansionCoefficient.hpp")
#include "PhQ/VolumetricThermalExpansionCoefficient.hpp"
#endif

#include "common/cond.hpp"
#include "common/parts.hpp"
#include "common/traits.hpp"

// Every class the table names, declared (not defined) here: if its header is gone the class is an incomplete type and
// the rows that use it are reported absent.
namespace PhQ {
template <typename T> class Direction;
template <typename T> class DisplacementGradient;
template <typename T> class DynamicKinematicPressure;
template <typename T> class DynamicPressure;
template <typename T> class DynamicViscosity;
template <typename T> class Frequency;
template <typename T> class GasConstant;
template <typename T> class HeatCapacityRatio;
template <typename T> class IsentropicBulkModulus;
template <typename T> class IsobaricHeatCapacity;
template <typename T> class IsochoricHeatCapacity;
template <typename T> class KinematicViscosity;
template <typename T> class Length;
template <typename T> class LinearThermalExpansionCoefficient;
template <typename T> class MachNumber;
template <typename T> class MassDensity;
template <typename T> class PlanarDirection;
template <typename T> class PlanarTraction;
template <typename T> class PrandtlNumber;
template <typename T> class ReynoldsNumber;
template <typename T> class ScalarStrain;
template <typename T> class ScalarStress;
template <typename T> class ScalarThermalConductivity;
template <typename T> class SoundSpeed;
template <typename T> class SpecificGasConstant;
template <typename T> class SpecificIsobaricHeatCapacity;
template <typename T> class SpecificIsochoricHeatCapacity;
template <typename T> class Speed;
template <typename T> class StaticKinematicPressure;
template <typename T> class StaticPressure;
template <typename T> class Strain;
template <typename T> class StrainRate;
template <typename T> class Stress;
template <typename T> class Temperature;
template <typename T> class TemperatureDifference;
template <typename T> class ThermalDiffusivity;
template <typename T> class Time;
template <typename T> class TotalKinematicPressure;
template <typename T> class TotalPressure;
template <typename T> class Traction;
template <typename T> class VelocityGradient;
template <typename T> class VolumetricThermalExpansionCoefficient;
}  // namespace PhQ

using namespace verif;
namespace P = PhQ;

static const double kK = 4.0;        // the bound, in units of ulp_T(ref) [+ Delta]
static const unsigned F_COND = 1u;   // the formula subtracts: the Delta term is part of the bound

template <typename Q, typename = void> struct is_complete : std::false_type {};
template <typename Q> struct is_complete<Q, std::void_t<decltype(sizeof(Q))>> : std::true_type {};

using RefFn = void (*)(const f128* x, f128* y);

struct RowInfo {
  int index = 0;
  std::string name;
  unsigned flags = 0;
  int nin = 0, nout = 0;
  RefFn ref = nullptr;
};

struct Acc {
  long long obs = 0, skipped = 0, readback = 0;
  double max_ulps = 0, max_cond = 0, max_delta_ulps = 0;
};

static const char* const kClassName[6] = {"wide", "moderate", "near-equal", "near-one", "dominant-near-equal-diagonal", "float-wide"};
// Rows for which the float instantiation holds over +-100 binades on the tree the list was calibrated on (the library
// evaluates many squares through std::pow, i.e. in double): a later change that narrows that range is a violation.
// In calibration mode every row gets the class and failures are listed instead of reported.
static std::set<std::string> g_wide_rows;
static bool g_calibrate = false;
// Calibrated range cases.  kRangeCases inputs per (row, numeric type) are drawn, from a seed that never changes, over most of
// the exponent range of the type (float +-100 binades, double +-800, long double +-13000).  Most formulas cannot hold on all
// of them: an intermediate product of the library's evaluation leaves the range although inputs and result do not, and
// which intermediate that is depends on the order of evaluation, which the property does not fix.  The calibration file
// (one line "row<TAB>type<TAB>hex mask", written by tools/calibrate.py on the tree it is committed with) marks the cases
// that held there with margin (error <= half the bound); such a case failing later is an input for which the definition
// used to evaluate to its formula and no longer does.
static const int kRangeCases = 256;
static std::map<std::string, std::string> g_range_masks;  // "row|type" -> hex mask, bit k of digit k/4
static bool g_range_loaded = false;

// ------------------------------------------------------------------------------------------------
// row-independent half (instantiated once per numeric type and translation unit)
// ------------------------------------------------------------------------------------------------
// Independent positive inputs.  Binary exponent +-66 is +-20 decades, +-19 is +-6 decades.
template <typename T>
static int draw(Rng& rng, std::vector<T>& x, bool float_wide) {
  constexpr int E = std::is_same_v<T, float> ? 19 : 66;
  const uint64_t pick = rng.below(float_wide ? 15 : 12);
  const int cls = pick < 4 ? 0 : pick < 6 ? 1 : pick < 8 ? 2 : pick < 10 ? 3 : pick < 12 ? (x.size() >= 6 ? 4 : 2) : 5;
  if (cls == 5) {
    for (auto& v : x) v = rng.logu<T>(-100, 100);
    return cls;
  }
  if (cls == 0) {
    for (auto& v : x) v = rng.logu<T>(-E, E);
  } else if (cls == 1) {
    for (auto& v : x) v = rng.logu<T>(-10, 10);
  } else if (cls == 4) {
    // tensor-valued inputs dominated by a nearly isotropic diagonal (a pressure-like state with small shear): the
    // diagonal slots agree in their leading bits, every other slot is smaller by 2^-8 .. 2^-(p/2)
    const T s = rng.logu<T>(-10, 10);
    const size_t n = x.size();
    for (size_t i = 0; i < n; ++i) {
      const bool diag = (n == 6 || n == 7) ? (i == 0 || i == 3 || i == 5) : (i % 4 == 0 && i < 9);
      if (diag) {
        const T d = rng.logu<T>(-(Num<T>::p / 2), -3);
        x[i] = s * (rng.coin() ? static_cast<T>(1) + d : static_cast<T>(1) - d);
      } else {
        x[i] = s * rng.logu<T>(-(Num<T>::p / 2), -8);
      }
    }
  } else {
    // x_i = s (1 +- d_i): values that agree in their leading 1..p-2 bits; s = 1 in the near-one class
    const T s = cls == 2 ? rng.logu<T>(-E + 1, E - 1) : static_cast<T>(1);
    for (auto& v : x) {
      const T d = rng.logu<T>(-(Num<T>::p - 2), -2);
      v = s * (rng.coin() ? static_cast<T>(1) + d : static_cast<T>(1) - d);
    }
  }
  return cls;
}

template <typename T>
static std::string jvec(const T* a, int n) {
  std::string o = "[";
  for (int i = 0; i < n; ++i) {
    if (i) o += ",";
    o += "{\"dec\":\"" + dec(a[i]) + "\",\"bits\":\"" + bits(a[i]) + "\"}";
  }
  return o + "]";
}

static std::string jvecq(const f128* a, int n) {
  std::string o = "[";
  for (int i = 0; i < n; ++i) o += std::string(i ? "," : "") + "\"" + q2s(a[i]) + "\"";
  return o + "]";
}

template <typename T>
static bool in_normal_range(f128 v) {
  const f128 a = fabsq(v);
  if (a == 0) return true;
  return a >= ldexpq(1.0Q, Num<T>::emin + 8) && a <= ldexpq(1.0Q, Num<T>::emax - 8);
}

// Error of one observation in units of the bound's scale (ulp + Delta); false when the exact result is not a normal number.
template <typename T>
static bool measure(const RowInfo& ri, const std::vector<T>& x, const T* got, double& worst_ec, double& worst_eu, f128* y) {
  f128 xq[16], yp[9], delta[9];
  const int n = ri.nin, m = ri.nout;
  for (int i = 0; i < n; ++i) xq[i] = static_cast<f128>(x[i]);
  for (int j = 0; j < m; ++j) y[j] = 0, delta[j] = 0;
  ri.ref(xq, y);
  for (int j = 0; j < m; ++j) {
    if (!(y[j] == y[j]) || isinfq(y[j]) || !in_normal_range<T>(y[j]) || y[j] == 0) return false;
  }
  if (ri.flags & F_COND) {
    for (int i = 0; i < n; ++i) {
      const f128 keep = xq[i];
      for (int s = 0; s < 2; ++s) {
        xq[i] = static_cast<f128>(s ? next_up(x[i]) : next_down(x[i]));
        for (int j = 0; j < m; ++j) yp[j] = 0;
        ri.ref(xq, yp);
        for (int j = 0; j < m; ++j) {
          const f128 c = fabsq(yp[j] - y[j]);
          if (c == c && !isinfq(c) && c > delta[j]) delta[j] = c;
        }
      }
      xq[i] = keep;
    }
  }
  worst_ec = 0;
  worst_eu = 0;
  for (int j = 0; j < m; ++j) {
    const double eu = ulps<T>(got[j], y[j]);
    const double ec = cond_error<T>(got[j], y[j], delta[j]);
    if (!(eu <= worst_eu)) worst_eu = eu;
    if (!(ec <= worst_ec)) worst_ec = ec;
  }
  return true;
}

// Compare one observation (inputs x as the library holds them, outputs got) with the binary128 formula.
template <typename T>
static void judge(Reporter& R, const RowInfo& ri, Acc& acc, int cls, uint64_t k, const std::vector<T>& x, const T* got) {
  f128 xq[16], y[9], yp[9], delta[9];
  const int n = ri.nin, m = ri.nout;
  for (int i = 0; i < n; ++i) xq[i] = static_cast<f128>(x[i]);
  for (int j = 0; j < m; ++j) y[j] = 0, delta[j] = 0;
  ri.ref(xq, y);
  for (int j = 0; j < m; ++j) {
    if (!(y[j] == y[j]) || isinfq(y[j]) || !in_normal_range<T>(y[j])) {
      ++acc.skipped;  // e.g. cp == R exactly in cp / (cp - R); the case says nothing
      return;
    }
  }
  if (ri.flags & F_COND) {
    for (int i = 0; i < n; ++i) {
      const f128 keep = xq[i];
      for (int s = 0; s < 2; ++s) {
        xq[i] = static_cast<f128>(s ? next_up(x[i]) : next_down(x[i]));
        for (int j = 0; j < m; ++j) yp[j] = 0;
        ri.ref(xq, yp);
        for (int j = 0; j < m; ++j) {
          const f128 c = fabsq(yp[j] - y[j]);
          if (c == c && !isinfq(c) && c > delta[j]) delta[j] = c;
        }
      }
      xq[i] = keep;
    }
  }
  R.eval(static_cast<uint64_t>(m));
  ++acc.obs;
  double worst = 0;
  for (int j = 0; j < m; ++j) {
    const double eu = ulps<T>(got[j], y[j]);
    const double ec = cond_error<T>(got[j], y[j], delta[j]);
    // Delta in ulps of the result, for the evidence (meaningless when the exact result is 0: total == dynamic)
    const f128 du = y[j] == 0 ? 0.0Q : delta[j] / ulp_at<T>(y[j]);
    const double dud = du > 1e300Q ? 1e300 : static_cast<double>(du);
    if (eu > acc.max_ulps) acc.max_ulps = eu;
    if (eu > worst) worst = eu;
    if (ec > acc.max_cond) acc.max_cond = ec;
    if (dud > acc.max_delta_ulps) acc.max_delta_ulps = dud;
    if (!(ec <= kK) && cls == 5 && g_calibrate) {
      R.list("float_wide_failing_rows", ri.name);
      return;
    }
    if (!(ec <= kK)) {
      std::string key = "C18|row=" + ri.name + "|" + Num<T>::name;
      if (m > 1) key += "|slot=" + std::to_string(j);
      R.violation(key, J().s("row", ri.name).s("numeric_type", Num<T>::name).s("input_class", kClassName[cls])
                           .i("case", static_cast<long long>(k)).i("slot", j).raw("inputs", jvec(x.data(), n))
                           .raw("got", jvec(got, m)).raw("exact", jvecq(y, m)).d("error_ulps", eu)
                           .d("error_in_units_of_ulp_plus_delta", ec).d("delta_ulps", dud).d("bound", kK)
                           .i("conditioning_term_used", (ri.flags & F_COND) ? 1 : 0).str());
    }
  }
  if (R.want_sample() && cls == 0 && k % 7 == 3) {
    R.sample(J().s("row", ri.name).s("numeric_type", Num<T>::name).s("input_class", kClassName[cls])
                 .raw("inputs", jvec(x.data(), n)).raw("got", jvec(got, m)).raw("exact", jvecq(y, m))
                 .d("error_ulps", worst).str());
  }
}

template <typename T>
static void flush(Reporter& R, const RowInfo& ri, const Acc& acc) {
  const std::string tail = "|" + ri.name + "|" + Num<T>::name;
  R.count("obs" + tail, acc.obs);
  if (acc.skipped) R.count("skipped" + tail, acc.skipped);
  if (acc.readback) R.count("readback_mismatch" + tail, acc.readback);
  if (acc.obs) {
    R.maxi("ulps" + tail, acc.max_ulps);
    if (ri.flags & F_COND) {
      R.maxi("cond" + tail, acc.max_cond);
      R.maxi("delta_ulps" + tail, acc.max_delta_ulps);
    }
  }
}

// ------------------------------------------------------------------------------------------------
// row-specific half
// ------------------------------------------------------------------------------------------------
template <typename Q, typename T>
static Q build(std::vector<T>& x, int off, Acc& acc) {
  constexpr int n = n_of<Q>;
  std::array<T, n> a;
  for (int i = 0; i < n; ++i) a[i] = x[off + i];
  Q q = from_si<Q>(a);
  // what the library now holds is what the oracle uses (directions normalise; everything else must be unchanged)
  const auto back = to_si(q);
  for (int i = 0; i < n; ++i) {
    if (!is_direction<Q>::value && !same_bits(back[i], a[i])) ++acc.readback;
    x[off + i] = back[i];
  }
  return q;
}

template <typename T, typename Out, typename... In, typename Call, size_t... Is>
static void run_cases(Reporter& R, const Args& A, const RowInfo& ri, Acc& acc, Call& call, std::index_sequence<Is...>) {
  constexpr int N = sizeof...(In);
  constexpr int sizes[N] = {n_of<In>...};
  int offs[N];
  int o = 0;
  for (int i = 0; i < N; ++i) {
    offs[i] = o;
    o += sizes[i];
  }
  const long long cases = A.n("cases", A.thorough() ? 1500000 : 1600);
  std::vector<T> x(static_cast<size_t>(ri.nin));
  for (long long k = 0; k < cases; ++k) {
    if (!A.mine(static_cast<uint64_t>(k) + static_cast<uint64_t>(ri.index))) continue;
    Rng rng(mix(mix(A.seed, static_cast<uint64_t>(ri.index) * 4 + Num<T>::idx), static_cast<uint64_t>(k)));
    const bool float_wide = std::is_same_v<T, float> && (g_calibrate || g_wide_rows.count(ri.name) == 1);
    const int cls = draw<T>(rng, x, float_wide);
    if (cls == 5) R.count("float_wide_cases");
    std::tuple<In...> args{build<In, T>(x, offs[Is], acc)...};
    const Out out = call(std::get<Is>(args)...);
    const auto got = to_si(out);
    judge<T>(R, ri, acc, cls, static_cast<uint64_t>(k), x, got.data());
    // distinct case = (row, numeric type, input class); every shard meets every class, so each key is counted by
    // the one shard it is assigned to (the driver adds the shards' counts)
    const uint64_t dk = static_cast<uint64_t>(ri.index) * 32 + static_cast<uint64_t>(Num<T>::idx) * 8 + static_cast<uint64_t>(cls);
    if (A.mine(dk)) R.nontrivial(mix(dk, 0xC18));
  }
  // calibrated range cases (see kRangeCases)
  if (!g_calibrate && !g_range_loaded) return;
  const std::string mkey = ri.name + "|" + Num<T>::name;
  const auto mit = g_range_masks.find(mkey);
  if (!g_calibrate && mit == g_range_masks.end()) {
    R.list("range_rows_without_calibration", mkey);
    return;
  }
  const int W = std::is_same_v<T, float> ? 100 : std::is_same_v<T, double> ? 800 : 13000;
  std::string mask(static_cast<size_t>(kRangeCases / 4), '0');
  long long replayed = 0;
  for (int k = 0; k < kRangeCases; ++k) {
    bool marked = false;
    if (!g_calibrate) {
      const char c = static_cast<size_t>(k / 4) < mit->second.size() ? mit->second[static_cast<size_t>(k / 4)] : '0';
      const int digit = c >= 'a' ? c - 'a' + 10 : c - '0';
      marked = (digit >> (k % 4)) & 1;
      if (!marked || !A.mine(static_cast<uint64_t>(k) + static_cast<uint64_t>(ri.index) * 3)) continue;
    } else if (A.shard != 0) {
      break;  // calibration is written by one shard
    }
    Rng rng(mix(mix(0xCA11B8A7E5ULL, static_cast<uint64_t>(ri.index) * 4 + Num<T>::idx), static_cast<uint64_t>(k)));
    for (auto& v : x) v = rng.logu<T>(-W, W);
    std::tuple<In...> args{build<In, T>(x, offs[Is], acc)...};
    const Out out = call(std::get<Is>(args)...);
    const auto got = to_si(out);
    double ec = 0, eu = 0;
    f128 y[9];
    const bool judged = measure<T>(ri, x, got.data(), ec, eu, y);
    if (g_calibrate) {
      if (judged && ec <= kK / 2) {
        char& c = mask[static_cast<size_t>(k / 4)];
        int digit = c >= 'a' ? c - 'a' + 10 : c - '0';
        digit |= 1 << (k % 4);
        c = static_cast<char>(digit < 10 ? '0' + digit : 'a' + digit - 10);
      }
      continue;
    }
    ++replayed;
    R.eval(static_cast<uint64_t>(ri.nout));
    if (!judged || !(ec <= kK)) {
      R.violation("C18|row=" + ri.name + "|" + Num<T>::name + "|calibrated-range",
                  J().s("row", ri.name).s("numeric_type", Num<T>::name).s("input_class", "calibrated-range")
                      .i("range_case", k).raw("inputs", jvec(x.data(), ri.nin)).raw("got", jvec(got.data(), ri.nout))
                      .raw("exact", jvecq(y, ri.nout)).d("error_ulps", eu).d("error_in_units_of_ulp_plus_delta", ec).d("bound", kK)
                      .s("meaning", "this input held with margin on the tree the calibration file was written for: inputs and exact "
                                    "result are normal numbers, an intermediate of the evaluation now leaves the range or loses accuracy").str());
      break;
    }
  }
  if (g_calibrate) {
    if (A.shard == 0) R.list("range_mask|" + mkey, mask);
  } else {
    R.count("range_cases_replayed|" + std::string(Num<T>::name), replayed);
    if (replayed) R.nontrivial(mix(static_cast<uint64_t>(ri.index) * 32 + Num<T>::idx * 8 + 7, 0xC18));
  }
}

// The row index I is a template parameter so that it appears in the compiler's instantiation backtrace.
template <typename T, int I, template <typename> class OutQ, template <typename> class... InQ, typename Call>
static void row(Reporter& R, const Args& A, const char* name, unsigned flags, Call call, RefFn ref) {
  constexpr int index = I;
  R.list("rows_table", name);
  constexpr bool complete = is_complete<OutQ<T>>::value && (is_complete<InQ<T>>::value && ...);
  if constexpr (!complete) {
    R.list("rows_absent", std::string(name) + " [a class it names is not defined]");
  } else if constexpr (!std::is_invocable_v<Call, const InQ<T>&...>) {
    R.list("rows_absent", std::string(name) + " [no such constructor/operator/member]");
  } else if constexpr (!std::is_same_v<std::decay_t<std::invoke_result_t<Call, const InQ<T>&...>>, OutQ<T>>) {
    R.list("rows_absent", std::string(name) + " [the expression has another result type]");
  } else {
    R.list("rows_present", name);
    RowInfo ri;
    ri.index = index;
    ri.name = name;
    ri.flags = flags;
    ri.nin = (n_of<InQ<T>> + ...);
    ri.nout = n_of<OutQ<T>>;
    ri.ref = ref;
    Acc acc;
    const std::string key = std::string("C18|row=") + name + "|" + Num<T>::name;
    R.crumb(key);
    guarded(R, key, [&] {
      run_cases<T, OutQ<T>, InQ<T>...>(R, A, ri, acc, call, std::index_sequence_for<InQ<T>...>{});
    });
    flush<T>(R, ri, acc);
  }
}

// A relation whose *body* does not compile for some numeric type cannot be found by a detection idiom (the error is
// outside the immediate context).  The python side reads (row index, numeric type) out of the failed build's
// instantiation backtrace and rebuilds with -DC18_DISABLED={row,type},...; such a pair is reported, never run.
#ifndef C18_DISABLED
#define C18_DISABLED
#endif
struct DisabledPair {
  int row, type;
};
constexpr DisabledPair kDisabled[] = {C18_DISABLED{-1, -1}};
constexpr bool c18_disabled(int row, int type) {
  for (const auto& d : kDisabled) {
    if (d.row == row && d.type == type) return true;
  }
  return false;
}

template <typename T>
static void row_disabled(Reporter& R, int index, const char* name) {
  R.list("rows_table", name);
  R.list("rows_disabled", std::string(name) + "|" + Num<T>::name + "|" + std::to_string(index));
}

// ------------------------------------------------------------------------------------------------
// the table
// ------------------------------------------------------------------------------------------------
#define UNP(...) __VA_ARGS__
#define A1 (const auto& a)
#define A2 (const auto& a, const auto& b)
#define A3 (const auto& a, const auto& b, const auto& c)
#define A4 (const auto& a, const auto& b, const auto& c, const auto& d)
// ROW(name, flags, (Out, In...), (lambda parameters), (library expression), (binary128 formula on x[] -> y[]))
#define ROW(NAME, FLAGS, TYPES, ARGS, EXPR, REF)                                                          \
  {                                                                                                       \
    constexpr int I = __COUNTER__ - kBase;                                                                \
    if constexpr (VERIF_IN_PART(I)) {                                                                     \
      if constexpr (c18_disabled(I, Num<T>::idx)) {                                                       \
        row_disabled<T>(R, I, NAME);                                                                      \
      } else {                                                                                            \
        row<T, I, UNP TYPES>(                                                                             \
            R, A, NAME, FLAGS, [] ARGS -> decltype(UNP EXPR) { return UNP EXPR; },                        \
            [](const f128* x, f128* y) { UNP REF });                                                      \
      }                                                                                                   \
    }                                                                                                     \
  }

// gamma = cp / cv and R = cp - cv with every inverse the library offers; once extensive, once specific
#define HEAT_FAMILY(CP, CV, RG)                                                                                          \
  ROW("HeatCapacityRatio(" #CP "," #CV ")", 0, (P::HeatCapacityRatio, P::CP, P::CV), A2,                                  \
      (P::HeatCapacityRatio<T>(a, b)), (y[0] = x[0] / x[1];))                                                            \
  ROW(#CP "/" #CV, 0, (P::HeatCapacityRatio, P::CP, P::CV), A2, (a / b), (y[0] = x[0] / x[1];))                           \
  ROW(#CP "(HeatCapacityRatio," #CV ")", 0, (P::CP, P::HeatCapacityRatio, P::CV), A2, (P::CP<T>(a, b)),                   \
      (y[0] = x[0] * x[1];))                                                                                             \
  ROW("HeatCapacityRatio*" #CV, 0, (P::CP, P::HeatCapacityRatio, P::CV), A2, (a * b), (y[0] = x[0] * x[1];))              \
  ROW(#CV "*HeatCapacityRatio", 0, (P::CP, P::CV, P::HeatCapacityRatio), A2, (a * b), (y[0] = x[0] * x[1];))              \
  ROW(#CV "(" #CP ",HeatCapacityRatio)", 0, (P::CV, P::CP, P::HeatCapacityRatio), A2, (P::CV<T>(a, b)),                   \
      (y[0] = x[0] / x[1];))                                                                                             \
  ROW(#CP "/HeatCapacityRatio", 0, (P::CV, P::CP, P::HeatCapacityRatio), A2, (a / b), (y[0] = x[0] / x[1];))              \
  ROW(#RG "(" #CP "," #CV ")", F_COND, (P::RG, P::CP, P::CV), A2, (P::RG<T>(a, b)), (y[0] = x[0] - x[1];))                \
  ROW(#CP "-" #CV, F_COND, (P::RG, P::CP, P::CV), A2, (a - b), (y[0] = x[0] - x[1];))                                     \
  ROW(#CV "(" #CP "," #RG ")", F_COND, (P::CV, P::CP, P::RG), A2, (P::CV<T>(a, b)), (y[0] = x[0] - x[1];))                \
  ROW(#CP "-" #RG, F_COND, (P::CV, P::CP, P::RG), A2, (a - b), (y[0] = x[0] - x[1];))                                     \
  ROW(#CP "(" #CV "," #RG ")", 0, (P::CP, P::CV, P::RG), A2, (P::CP<T>(a, b)), (y[0] = x[0] + x[1];))                     \
  ROW(#CV "+" #RG, 0, (P::CP, P::CV, P::RG), A2, (a + b), (y[0] = x[0] + x[1];))                                          \
  ROW(#RG "+" #CV, 0, (P::CP, P::RG, P::CV), A2, (a + b), (y[0] = x[0] + x[1];))                                          \
  ROW("HeatCapacityRatio(" #CP "," #RG ")", F_COND, (P::HeatCapacityRatio, P::CP, P::RG), A2,                             \
      (P::HeatCapacityRatio<T>(a, b)), (y[0] = x[0] / (x[0] - x[1]);))                                                   \
  ROW("HeatCapacityRatio(" #RG "," #CV ")", 0, (P::HeatCapacityRatio, P::RG, P::CV), A2,                                  \
      (P::HeatCapacityRatio<T>(a, b)), (y[0] = x[0] / x[1] + 1;))                                                        \
  ROW(#RG "(HeatCapacityRatio," #CP ")", F_COND, (P::RG, P::HeatCapacityRatio, P::CP), A2, (P::RG<T>(a, b)),              \
      (y[0] = (1 - 1 / x[0]) * x[1];))                                                                                   \
  ROW(#RG "(HeatCapacityRatio," #CV ")", F_COND, (P::RG, P::HeatCapacityRatio, P::CV), A2, (P::RG<T>(a, b)),              \
      (y[0] = (x[0] - 1) * x[1];))                                                                                       \
  ROW(#CV "(" #RG ",HeatCapacityRatio)", F_COND, (P::CV, P::RG, P::HeatCapacityRatio), A2, (P::CV<T>(a, b)),              \
      (y[0] = x[0] / (x[1] - 1);))                                                                                       \
  ROW(#CP "(HeatCapacityRatio," #RG ")", F_COND, (P::CP, P::HeatCapacityRatio, P::RG), A2, (P::CP<T>(a, b)),              \
      (y[0] = x[0] * x[1] / (x[0] - 1);))

// total = static + dynamic with both differences, constructor and operator spellings; once per pressure family
#define TOTAL_FAMILY(TOT, STA, DYN)                                                                             \
  ROW(#TOT "(" #STA "," #DYN ")", 0, (P::TOT, P::STA, P::DYN), A2, (P::TOT<T>(a, b)), (y[0] = x[0] + x[1];))    \
  ROW(#STA "+" #DYN, 0, (P::TOT, P::STA, P::DYN), A2, (a + b), (y[0] = x[0] + x[1];))                           \
  ROW(#DYN "+" #STA, 0, (P::TOT, P::DYN, P::STA), A2, (a + b), (y[0] = x[0] + x[1];))                           \
  ROW(#STA "(" #TOT "," #DYN ")", F_COND, (P::STA, P::TOT, P::DYN), A2, (P::STA<T>(a, b)), (y[0] = x[0] - x[1];)) \
  ROW(#TOT "-" #DYN, F_COND, (P::STA, P::TOT, P::DYN), A2, (a - b), (y[0] = x[0] - x[1];))                      \
  ROW(#DYN "(" #TOT "," #STA ")", F_COND, (P::DYN, P::TOT, P::STA), A2, (P::DYN<T>(a, b)), (y[0] = x[0] - x[1];)) \
  ROW(#TOT "-" #STA, F_COND, (P::DYN, P::TOT, P::STA), A2, (a - b), (y[0] = x[0] - x[1];))

// symmetric part of a gradient: input slots xx xy xz yx yy yz zx zy zz, output slots xx xy xz yy yz zz
#define SYM_PART                         \
  y[0] = x[0];                           \
  y[1] = 0.5Q * (x[1] + x[3]);           \
  y[2] = 0.5Q * (x[2] + x[6]);           \
  y[3] = x[4];                           \
  y[4] = 0.5Q * (x[5] + x[7]);           \
  y[5] = x[8];
// stress slots xx xy xz yy yz zz = x[0..5], unit normal = x[6..8]
#define TRACTION                                        \
  y[0] = x[0] * x[6] + x[1] * x[7] + x[2] * x[8];       \
  y[1] = x[1] * x[6] + x[3] * x[7] + x[4] * x[8];       \
  y[2] = x[2] * x[6] + x[4] * x[7] + x[5] * x[8];
#define PLANAR_TRACTION                   \
  y[0] = x[0] * x[6] + x[1] * x[7];       \
  y[1] = x[1] * x[6] + x[3] * x[7];

enum { kBase = __COUNTER__ + 1 };

template <typename T>
static void table(Reporter& R, const Args& A) {
  // ---- dynamic pressure q = rho v^2 / 2 and its kinematic form k = v^2 / 2
  ROW("DynamicPressure(MassDensity,Speed)", 0, (P::DynamicPressure, P::MassDensity, P::Speed), A2,
      (P::DynamicPressure<T>(a, b)), (y[0] = 0.5Q * x[0] * x[1] * x[1];))
  ROW("MassDensity(DynamicPressure,Speed)", 0, (P::MassDensity, P::DynamicPressure, P::Speed), A2,
      (P::MassDensity<T>(a, b)), (y[0] = 2 * x[0] / (x[1] * x[1]);))
  ROW("Speed(DynamicPressure,MassDensity)", 0, (P::Speed, P::DynamicPressure, P::MassDensity), A2,
      (P::Speed<T>(a, b)), (y[0] = sqrtq(2 * x[0] / x[1]);))
  ROW("DynamicKinematicPressure(Speed)", 0, (P::DynamicKinematicPressure, P::Speed), A1,
      (P::DynamicKinematicPressure<T>(a)), (y[0] = 0.5Q * x[0] * x[0];))
  ROW("Speed(DynamicKinematicPressure)", 0, (P::Speed, P::DynamicKinematicPressure), A1, (P::Speed<T>(a)),
      (y[0] = sqrtq(2 * x[0]);))
  ROW("DynamicKinematicPressure(DynamicPressure,MassDensity)", 0,
      (P::DynamicKinematicPressure, P::DynamicPressure, P::MassDensity), A2, (P::DynamicKinematicPressure<T>(a, b)),
      (y[0] = x[0] / x[1];))
  ROW("DynamicPressure/MassDensity", 0, (P::DynamicKinematicPressure, P::DynamicPressure, P::MassDensity), A2, (a / b),
      (y[0] = x[0] / x[1];))
  ROW("DynamicPressure(MassDensity,DynamicKinematicPressure)", 0,
      (P::DynamicPressure, P::MassDensity, P::DynamicKinematicPressure), A2, (P::DynamicPressure<T>(a, b)),
      (y[0] = x[0] * x[1];))
  // ---- total = static + dynamic, both families, and the pressure <-> kinematic pressure bridges
  TOTAL_FAMILY(TotalPressure, StaticPressure, DynamicPressure)
  TOTAL_FAMILY(TotalKinematicPressure, StaticKinematicPressure, DynamicKinematicPressure)
  ROW("TotalKinematicPressure(TotalPressure,MassDensity)", 0, (P::TotalKinematicPressure, P::TotalPressure, P::MassDensity),
      A2, (P::TotalKinematicPressure<T>(a, b)), (y[0] = x[0] / x[1];))
  ROW("TotalPressure/MassDensity", 0, (P::TotalKinematicPressure, P::TotalPressure, P::MassDensity), A2, (a / b),
      (y[0] = x[0] / x[1];))
  ROW("TotalPressure(MassDensity,TotalKinematicPressure)", 0, (P::TotalPressure, P::MassDensity, P::TotalKinematicPressure),
      A2, (P::TotalPressure<T>(a, b)), (y[0] = x[0] * x[1];))
  ROW("StaticKinematicPressure(StaticPressure,MassDensity)", 0,
      (P::StaticKinematicPressure, P::StaticPressure, P::MassDensity), A2, (P::StaticKinematicPressure<T>(a, b)),
      (y[0] = x[0] / x[1];))
  ROW("StaticPressure/MassDensity", 0, (P::StaticKinematicPressure, P::StaticPressure, P::MassDensity), A2, (a / b),
      (y[0] = x[0] / x[1];))
  ROW("StaticPressure(MassDensity,StaticKinematicPressure)", 0,
      (P::StaticPressure, P::MassDensity, P::StaticKinematicPressure), A2, (P::StaticPressure<T>(a, b)),
      (y[0] = x[0] * x[1];))
  ROW("StaticKinematicPressure*MassDensity", 0, (P::StaticPressure, P::StaticKinematicPressure, P::MassDensity), A2,
      (a * b), (y[0] = x[0] * x[1];))
  // ---- sound speed a = sqrt(K / rho) = sqrt(gamma p / rho) = sqrt(gamma R T)
  ROW("SoundSpeed(IsentropicBulkModulus,MassDensity)", 0, (P::SoundSpeed, P::IsentropicBulkModulus, P::MassDensity), A2,
      (P::SoundSpeed<T>(a, b)), (y[0] = sqrtq(x[0] / x[1]);))
  ROW("SoundSpeed(HeatCapacityRatio,StaticPressure,MassDensity)", 0,
      (P::SoundSpeed, P::HeatCapacityRatio, P::StaticPressure, P::MassDensity), A3, (P::SoundSpeed<T>(a, b, c)),
      (y[0] = sqrtq(x[0] * x[1] / x[2]);))
  ROW("SoundSpeed(HeatCapacityRatio,SpecificGasConstant,Temperature)", 0,
      (P::SoundSpeed, P::HeatCapacityRatio, P::SpecificGasConstant, P::Temperature), A3, (P::SoundSpeed<T>(a, b, c)),
      (y[0] = sqrtq(x[0] * x[1] * x[2]);))
  ROW("MassDensity(IsentropicBulkModulus,SoundSpeed)", 0, (P::MassDensity, P::IsentropicBulkModulus, P::SoundSpeed), A2,
      (P::MassDensity<T>(a, b)), (y[0] = x[0] / (x[1] * x[1]);))
  ROW("IsentropicBulkModulus(MassDensity,SoundSpeed)", 0, (P::IsentropicBulkModulus, P::MassDensity, P::SoundSpeed), A2,
      (P::IsentropicBulkModulus<T>(a, b)), (y[0] = x[0] * x[1] * x[1];))
  // ---- Mach number M = v / a
  ROW("MachNumber(Speed,SoundSpeed)", 0, (P::MachNumber, P::Speed, P::SoundSpeed), A2, (P::MachNumber<T>(a, b)),
      (y[0] = x[0] / x[1];))
  ROW("Speed/SoundSpeed", 0, (P::MachNumber, P::Speed, P::SoundSpeed), A2, (a / b), (y[0] = x[0] / x[1];))
  ROW("Speed(SoundSpeed,MachNumber)", 0, (P::Speed, P::SoundSpeed, P::MachNumber), A2, (P::Speed<T>(a, b)),
      (y[0] = x[0] * x[1];))
  ROW("SoundSpeed*MachNumber", 0, (P::Speed, P::SoundSpeed, P::MachNumber), A2, (a * b), (y[0] = x[0] * x[1];))
  ROW("MachNumber*SoundSpeed", 0, (P::Speed, P::MachNumber, P::SoundSpeed), A2, (a * b), (y[0] = x[0] * x[1];))
  ROW("SoundSpeed(Speed,MachNumber)", 0, (P::SoundSpeed, P::Speed, P::MachNumber), A2, (P::SoundSpeed<T>(a, b)),
      (y[0] = x[0] / x[1];))
  // ---- Reynolds number Re = rho v L / mu = v L / nu, every inverse, constructor and member spellings
  ROW("ReynoldsNumber(MassDensity,Speed,Length,DynamicViscosity)", 0,
      (P::ReynoldsNumber, P::MassDensity, P::Speed, P::Length, P::DynamicViscosity), A4, (P::ReynoldsNumber<T>(a, b, c, d)),
      (y[0] = x[0] * x[1] * x[2] / x[3];))
  ROW("ReynoldsNumber(Speed,Length,KinematicViscosity)", 0, (P::ReynoldsNumber, P::Speed, P::Length, P::KinematicViscosity),
      A3, (P::ReynoldsNumber<T>(a, b, c)), (y[0] = x[0] * x[1] / x[2];))
  ROW("Length(ReynoldsNumber,DynamicViscosity,MassDensity,Speed)", 0,
      (P::Length, P::ReynoldsNumber, P::DynamicViscosity, P::MassDensity, P::Speed), A4, (P::Length<T>(a, b, c, d)),
      (y[0] = x[0] * x[1] / (x[2] * x[3]);))
  ROW("ReynoldsNumber.Length(DynamicViscosity,MassDensity,Speed)", 0,
      (P::Length, P::ReynoldsNumber, P::DynamicViscosity, P::MassDensity, P::Speed), A4, (a.Length(b, c, d)),
      (y[0] = x[0] * x[1] / (x[2] * x[3]);))
  ROW("Length(ReynoldsNumber,KinematicViscosity,Speed)", 0, (P::Length, P::ReynoldsNumber, P::KinematicViscosity, P::Speed),
      A3, (P::Length<T>(a, b, c)), (y[0] = x[0] * x[1] / x[2];))
  ROW("ReynoldsNumber.Length(KinematicViscosity,Speed)", 0, (P::Length, P::ReynoldsNumber, P::KinematicViscosity, P::Speed),
      A3, (a.Length(b, c)), (y[0] = x[0] * x[1] / x[2];))
  ROW("Speed(ReynoldsNumber,DynamicViscosity,MassDensity,Length)", 0,
      (P::Speed, P::ReynoldsNumber, P::DynamicViscosity, P::MassDensity, P::Length), A4, (P::Speed<T>(a, b, c, d)),
      (y[0] = x[0] * x[1] / (x[2] * x[3]);))
  ROW("ReynoldsNumber.Speed(DynamicViscosity,MassDensity,Length)", 0,
      (P::Speed, P::ReynoldsNumber, P::DynamicViscosity, P::MassDensity, P::Length), A4, (a.Speed(b, c, d)),
      (y[0] = x[0] * x[1] / (x[2] * x[3]);))
  ROW("Speed(ReynoldsNumber,KinematicViscosity,Length)", 0, (P::Speed, P::ReynoldsNumber, P::KinematicViscosity, P::Length),
      A3, (P::Speed<T>(a, b, c)), (y[0] = x[0] * x[1] / x[2];))
  ROW("ReynoldsNumber.Speed(KinematicViscosity,Length)", 0, (P::Speed, P::ReynoldsNumber, P::KinematicViscosity, P::Length),
      A3, (a.Speed(b, c)), (y[0] = x[0] * x[1] / x[2];))
  ROW("MassDensity(ReynoldsNumber,DynamicViscosity,Speed,Length)", 0,
      (P::MassDensity, P::ReynoldsNumber, P::DynamicViscosity, P::Speed, P::Length), A4, (P::MassDensity<T>(a, b, c, d)),
      (y[0] = x[0] * x[1] / (x[2] * x[3]);))
  ROW("ReynoldsNumber.MassDensity(DynamicViscosity,Speed,Length)", 0,
      (P::MassDensity, P::ReynoldsNumber, P::DynamicViscosity, P::Speed, P::Length), A4, (a.MassDensity(b, c, d)),
      (y[0] = x[0] * x[1] / (x[2] * x[3]);))
  ROW("KinematicViscosity(Speed,Length,ReynoldsNumber)", 0, (P::KinematicViscosity, P::Speed, P::Length, P::ReynoldsNumber),
      A3, (P::KinematicViscosity<T>(a, b, c)), (y[0] = x[0] * x[1] / x[2];))
  ROW("ReynoldsNumber.KinematicViscosity(Speed,Length)", 0, (P::KinematicViscosity, P::ReynoldsNumber, P::Speed, P::Length),
      A3, (a.KinematicViscosity(b, c)), (y[0] = x[1] * x[2] / x[0];))
  ROW("DynamicViscosity(MassDensity,Speed,Length,ReynoldsNumber)", 0,
      (P::DynamicViscosity, P::MassDensity, P::Speed, P::Length, P::ReynoldsNumber), A4, (P::DynamicViscosity<T>(a, b, c, d)),
      (y[0] = x[0] * x[1] * x[2] / x[3];))
  ROW("ReynoldsNumber.DynamicViscosity(MassDensity,Speed,Length)", 0,
      (P::DynamicViscosity, P::ReynoldsNumber, P::MassDensity, P::Speed, P::Length), A4, (a.DynamicViscosity(b, c, d)),
      (y[0] = x[1] * x[2] * x[3] / x[0];))
  // ---- Prandtl number Pr = nu / alpha = cp mu / k, every inverse, constructor and member spellings
  ROW("PrandtlNumber(KinematicViscosity,ThermalDiffusivity)", 0, (P::PrandtlNumber, P::KinematicViscosity, P::ThermalDiffusivity),
      A2, (P::PrandtlNumber<T>(a, b)), (y[0] = x[0] / x[1];))
  ROW("PrandtlNumber(SpecificIsobaricHeatCapacity,DynamicViscosity,ScalarThermalConductivity)", 0,
      (P::PrandtlNumber, P::SpecificIsobaricHeatCapacity, P::DynamicViscosity, P::ScalarThermalConductivity), A3,
      (P::PrandtlNumber<T>(a, b, c)), (y[0] = x[0] * x[1] / x[2];))
  ROW("ThermalDiffusivity(KinematicViscosity,PrandtlNumber)", 0, (P::ThermalDiffusivity, P::KinematicViscosity, P::PrandtlNumber),
      A2, (P::ThermalDiffusivity<T>(a, b)), (y[0] = x[0] / x[1];))
  ROW("PrandtlNumber.ThermalDiffusivity(KinematicViscosity)", 0,
      (P::ThermalDiffusivity, P::PrandtlNumber, P::KinematicViscosity), A2, (a.ThermalDiffusivity(b)), (y[0] = x[1] / x[0];))
  ROW("KinematicViscosity(PrandtlNumber,ThermalDiffusivity)", 0, (P::KinematicViscosity, P::PrandtlNumber, P::ThermalDiffusivity),
      A2, (P::KinematicViscosity<T>(a, b)), (y[0] = x[0] * x[1];))
  ROW("PrandtlNumber.KinematicViscosity(ThermalDiffusivity)", 0,
      (P::KinematicViscosity, P::PrandtlNumber, P::ThermalDiffusivity), A2, (a.KinematicViscosity(b)), (y[0] = x[0] * x[1];))
  ROW("ScalarThermalConductivity(SpecificIsobaricHeatCapacity,DynamicViscosity,PrandtlNumber)", 0,
      (P::ScalarThermalConductivity, P::SpecificIsobaricHeatCapacity, P::DynamicViscosity, P::PrandtlNumber), A3,
      (P::ScalarThermalConductivity<T>(a, b, c)), (y[0] = x[0] * x[1] / x[2];))
  ROW("PrandtlNumber.ScalarThermalConductivity(SpecificIsobaricHeatCapacity,DynamicViscosity)", 0,
      (P::ScalarThermalConductivity, P::PrandtlNumber, P::SpecificIsobaricHeatCapacity, P::DynamicViscosity), A3,
      (a.ScalarThermalConductivity(b, c)), (y[0] = x[1] * x[2] / x[0];))
  ROW("SpecificIsobaricHeatCapacity(PrandtlNumber,ScalarThermalConductivity,DynamicViscosity)", 0,
      (P::SpecificIsobaricHeatCapacity, P::PrandtlNumber, P::ScalarThermalConductivity, P::DynamicViscosity), A3,
      (P::SpecificIsobaricHeatCapacity<T>(a, b, c)), (y[0] = x[0] * x[1] / x[2];))
  ROW("PrandtlNumber.SpecificIsobaricHeatCapacity(ScalarThermalConductivity,DynamicViscosity)", 0,
      (P::SpecificIsobaricHeatCapacity, P::PrandtlNumber, P::ScalarThermalConductivity, P::DynamicViscosity), A3,
      (a.SpecificIsobaricHeatCapacity(b, c)), (y[0] = x[0] * x[1] / x[2];))
  ROW("DynamicViscosity(PrandtlNumber,ScalarThermalConductivity,SpecificIsobaricHeatCapacity)", 0,
      (P::DynamicViscosity, P::PrandtlNumber, P::ScalarThermalConductivity, P::SpecificIsobaricHeatCapacity), A3,
      (P::DynamicViscosity<T>(a, b, c)), (y[0] = x[0] * x[1] / x[2];))
  ROW("PrandtlNumber.DynamicViscosity(ScalarThermalConductivity,SpecificIsobaricHeatCapacity)", 0,
      (P::DynamicViscosity, P::PrandtlNumber, P::ScalarThermalConductivity, P::SpecificIsobaricHeatCapacity), A3,
      (a.DynamicViscosity(b, c)), (y[0] = x[0] * x[1] / x[2];))
  // ---- gamma = cp / cv, R = cp - cv
  HEAT_FAMILY(IsobaricHeatCapacity, IsochoricHeatCapacity, GasConstant)
  HEAT_FAMILY(SpecificIsobaricHeatCapacity, SpecificIsochoricHeatCapacity, SpecificGasConstant)
  // ---- thermal diffusivity alpha = k / (rho cp)
  ROW("ThermalDiffusivity(ScalarThermalConductivity,MassDensity,SpecificIsobaricHeatCapacity)", 0,
      (P::ThermalDiffusivity, P::ScalarThermalConductivity, P::MassDensity, P::SpecificIsobaricHeatCapacity), A3,
      (P::ThermalDiffusivity<T>(a, b, c)), (y[0] = x[0] / (x[1] * x[2]);))
  ROW("ScalarThermalConductivity(MassDensity,SpecificIsobaricHeatCapacity,ThermalDiffusivity)", 0,
      (P::ScalarThermalConductivity, P::MassDensity, P::SpecificIsobaricHeatCapacity, P::ThermalDiffusivity), A3,
      (P::ScalarThermalConductivity<T>(a, b, c)), (y[0] = x[0] * x[1] * x[2];))
  ROW("MassDensity(ScalarThermalConductivity,ThermalDiffusivity,SpecificIsobaricHeatCapacity)", 0,
      (P::MassDensity, P::ScalarThermalConductivity, P::ThermalDiffusivity, P::SpecificIsobaricHeatCapacity), A3,
      (P::MassDensity<T>(a, b, c)), (y[0] = x[0] / (x[1] * x[2]);))
  ROW("SpecificIsobaricHeatCapacity(ScalarThermalConductivity,MassDensity,ThermalDiffusivity)", 0,
      (P::SpecificIsobaricHeatCapacity, P::ScalarThermalConductivity, P::MassDensity, P::ThermalDiffusivity), A3,
      (P::SpecificIsobaricHeatCapacity<T>(a, b, c)), (y[0] = x[0] / (x[1] * x[2]);))
  // ---- kinematic viscosity nu = mu / rho
  ROW("KinematicViscosity(DynamicViscosity,MassDensity)", 0, (P::KinematicViscosity, P::DynamicViscosity, P::MassDensity), A2,
      (P::KinematicViscosity<T>(a, b)), (y[0] = x[0] / x[1];))
  ROW("DynamicViscosity/MassDensity", 0, (P::KinematicViscosity, P::DynamicViscosity, P::MassDensity), A2, (a / b),
      (y[0] = x[0] / x[1];))
  ROW("DynamicViscosity(MassDensity,KinematicViscosity)", 0, (P::DynamicViscosity, P::MassDensity, P::KinematicViscosity), A2,
      (P::DynamicViscosity<T>(a, b)), (y[0] = x[0] * x[1];))
  ROW("KinematicViscosity*MassDensity", 0, (P::DynamicViscosity, P::KinematicViscosity, P::MassDensity), A2, (a * b),
      (y[0] = x[0] * x[1];))
  ROW("MassDensity*KinematicViscosity", 0, (P::DynamicViscosity, P::MassDensity, P::KinematicViscosity), A2, (a * b),
      (y[0] = x[0] * x[1];))
  ROW("MassDensity(DynamicViscosity,KinematicViscosity)", 0, (P::MassDensity, P::DynamicViscosity, P::KinematicViscosity), A2,
      (P::MassDensity<T>(a, b)), (y[0] = x[0] / x[1];))
  ROW("DynamicViscosity/KinematicViscosity", 0, (P::MassDensity, P::DynamicViscosity, P::KinematicViscosity), A2, (a / b),
      (y[0] = x[0] / x[1];))
  // ---- period = 1 / frequency
  ROW("Time(Frequency)", 0, (P::Time, P::Frequency), A1, (P::Time<T>(a)), (y[0] = 1 / x[0];))
  ROW("Frequency.Period()", 0, (P::Time, P::Frequency), A1, (a.Period()), (y[0] = 1 / x[0];))
  ROW("Frequency(Time)", 0, (P::Frequency, P::Time), A1, (P::Frequency<T>(a)), (y[0] = 1 / x[0];))
  ROW("Time.Frequency()", 0, (P::Frequency, P::Time), A1, (a.Frequency()), (y[0] = 1 / x[0];))
  // ---- strain and strain rate: symmetric parts of the displacement and velocity gradients
  ROW("Strain(DisplacementGradient)", 0, (P::Strain, P::DisplacementGradient), A1, (P::Strain<T>(a)), (SYM_PART))
  ROW("DisplacementGradient.Strain()", 0, (P::Strain, P::DisplacementGradient), A1, (a.Strain()), (SYM_PART))
  ROW("StrainRate(VelocityGradient)", 0, (P::StrainRate, P::VelocityGradient), A1, (P::StrainRate<T>(a)), (SYM_PART))
  ROW("VelocityGradient.StrainRate()", 0, (P::StrainRate, P::VelocityGradient), A1, (a.StrainRate()), (SYM_PART))
  // ---- thermal strain: alpha dT and (beta dT / 3) I
  ROW("ScalarStrain(LinearThermalExpansionCoefficient,TemperatureDifference)", 0,
      (P::ScalarStrain, P::LinearThermalExpansionCoefficient, P::TemperatureDifference), A2, (P::ScalarStrain<T>(a, b)),
      (y[0] = x[0] * x[1];))
  ROW("LinearThermalExpansionCoefficient*TemperatureDifference", 0,
      (P::ScalarStrain, P::LinearThermalExpansionCoefficient, P::TemperatureDifference), A2, (a * b), (y[0] = x[0] * x[1];))
  ROW("TemperatureDifference*LinearThermalExpansionCoefficient", 0,
      (P::ScalarStrain, P::TemperatureDifference, P::LinearThermalExpansionCoefficient), A2, (a * b), (y[0] = x[0] * x[1];))
  ROW("Strain(VolumetricThermalExpansionCoefficient,TemperatureDifference)", 0,
      (P::Strain, P::VolumetricThermalExpansionCoefficient, P::TemperatureDifference), A2, (P::Strain<T>(a, b)),
      (y[0] = y[3] = y[5] = x[0] * x[1] / 3; y[1] = y[2] = y[4] = 0;))
  ROW("VolumetricThermalExpansionCoefficient*TemperatureDifference", 0,
      (P::Strain, P::VolumetricThermalExpansionCoefficient, P::TemperatureDifference), A2, (a * b),
      (y[0] = y[3] = y[5] = x[0] * x[1] / 3; y[1] = y[2] = y[4] = 0;))
  ROW("TemperatureDifference*VolumetricThermalExpansionCoefficient", 0,
      (P::Strain, P::TemperatureDifference, P::VolumetricThermalExpansionCoefficient), A2, (a * b),
      (y[0] = y[3] = y[5] = x[0] * x[1] / 3; y[1] = y[2] = y[4] = 0;))
  // ---- von Mises stress, traction sigma . n, static pressure as the isotropic stress -p I
  ROW("Stress.VonMises()", F_COND, (P::ScalarStress, P::Stress), A1, (a.VonMises()),
      (const f128 d1 = x[0] - x[3], d2 = x[3] - x[5], d3 = x[5] - x[0];
       y[0] = sqrtq(0.5Q * (d1 * d1 + d2 * d2 + d3 * d3 + 6 * (x[1] * x[1] + x[2] * x[2] + x[4] * x[4])));))
  ROW("Traction(Stress,Direction)", 0, (P::Traction, P::Stress, P::Direction), A2, (P::Traction<T>(a, b)), (TRACTION))
  ROW("Stress.Traction(Direction)", 0, (P::Traction, P::Stress, P::Direction), A2, (a.Traction(b)), (TRACTION))
  ROW("PlanarTraction(Stress,PlanarDirection)", 0, (P::PlanarTraction, P::Stress, P::PlanarDirection), A2,
      (P::PlanarTraction<T>(a, b)), (PLANAR_TRACTION))
  ROW("Stress.PlanarTraction(PlanarDirection)", 0, (P::PlanarTraction, P::Stress, P::PlanarDirection), A2,
      (a.PlanarTraction(b)), (PLANAR_TRACTION))
  ROW("Stress(StaticPressure)", 0, (P::Stress, P::StaticPressure), A1, (P::Stress<T>(a)),
      (y[0] = y[3] = y[5] = -x[0]; y[1] = y[2] = y[4] = 0;))
  ROW("StaticPressure.Stress()", 0, (P::Stress, P::StaticPressure), A1, (a.Stress()),
      (y[0] = y[3] = y[5] = -x[0]; y[1] = y[2] = y[4] = 0;))
}

enum { kRows = __COUNTER__ - kBase };

void VERIF_THIS_PART(Reporter& R, const Args& A) {
  // per translation unit: the calibrated list of rows judged over the wide float range (one name per line)
  g_calibrate = A.n("calibrate", 0) != 0;
  g_wide_rows.clear();
  {
    std::ifstream in(A.get("wide_rows"));
    std::string line;
    while (std::getline(in, line)) {
      if (!line.empty()) g_wide_rows.insert(line);
    }
  }
  g_range_masks.clear();
  g_range_loaded = false;
  {
    std::ifstream in(A.get("range_cases"));
    std::string line;
    while (std::getline(in, line)) {
      const size_t a = line.find('\t'), b = line.rfind('\t');
      if (a == std::string::npos || b == a) continue;
      g_range_masks[line.substr(0, a) + "|" + line.substr(a + 1, b - a - 1)] = line.substr(b + 1);
      g_range_loaded = true;
    }
  }
  table<float>(R, A);
  table<double>(R, A);
  table<long double>(R, A);
}

#if VERIF_PART == 0
int main(int argc, char** argv) {
  Args A = parse_args(argc, argv);
  Reporter R(A.out);
  R.maxi("rows_in_table", kRows);
  verif_run_parts(R, A);
  return R.finish();
}
#endif
