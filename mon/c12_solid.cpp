// C12: an elastic isotropic solid is the same material from any modulus pair.
//
// Events observed (all through the public API of PhQ::ConstitutiveModel::ElasticIsotropicSolid<M>):
//   (1) every declared two-modulus constructor (found with std::is_constructible over the 7x7 ordered pairs of moduli
//       types, so the list is the compiler's, not a regex's) fed the ground-truth pair rounded to M: stored (mu, lambda)
//       and the seven accessors against binary128 values computed from the *same rounded inputs*;
//   (2) the four identities of isotropic elasticity on the reported moduli (accessor vs binary128 of the stored state);
//   (3) rebuild from every reported pair;
//   (4) Stress(eps) per slot against 2 mu eps + lambda tr(eps) I, Strain(sigma) against the closed-form inverse,
//       both round trips, Stress(eps, rate) == Stress(eps) bit for bit, Stress(rate) == 0, StrainRate(sigma) == 0;
//   (5) the 3 argument numeric types x 3 model numeric types, each called directly and through
//       const PhQ::ConstitutiveModel&, virtual == direct bit for bit.
// Oracle: binary128 (libquadmath).  The pair -> (mu, lambda) solver below is written from the textbook quadratic/linear
// inversions and is validated at start-up against the four forward identities quoted in the property text.
// Bounds: DESIGN.md 2.5, |got - ref| <= 4 (ulp(ref) + Delta).
//
// One translation unit per numeric type of the model (-DVERIF_PARTS=3).
#include <fcntl.h>
#include <unistd.h>

#include "PhQ/ConstitutiveModel/ElasticIsotropicSolid.hpp"
#include "common/cond.hpp"
#include "common/parts.hpp"
#include "common/traits.hpp"

using namespace verif;

namespace {

constexpr double kK = 4.0;  // the bound of DESIGN.md 2.5

// Breadcrumb with one system call per call site (Reporter::crumb opens and closes the file each time, which costs more
// than the ~40 library calls per tensor it would announce): same file, same format (first line = call-site key),
// fixed-size record rewritten in place.  Reporter::finish() removes the file on a clean exit.
struct FastCrumb {
  int fd = -1;
  void operator()(const Reporter& R, const std::string& key, uint64_t index = 0) {
    if (fd < 0) {
      fd = ::open((R.out + "/breadcrumb.txt").c_str(), O_WRONLY | O_CREAT, 0644);
      if (fd < 0) return;
    }
    char buf[320];
    std::memset(buf, ' ', sizeof buf);
    const int n = std::snprintf(buf, sizeof buf, "%s\nmaterial_index=%llu", key.c_str(), static_cast<unsigned long long>(index));
    if (n > 0 && n < static_cast<int>(sizeof buf)) buf[n] = ' ';
    buf[sizeof buf - 1] = '\n';
    (void)!::pwrite(fd, buf, sizeof buf, 0);
  }
};
FastCrumb crumb;

template <typename T>
using Solid = PhQ::ConstitutiveModel::ElasticIsotropicSolid<T>;

// ------------------------------------------------------------------------------------------------------------------
// the seven moduli
// ------------------------------------------------------------------------------------------------------------------
enum : int { kE = 0, kG = 1, kL = 2, kKs = 3, kKt = 4, kM = 5, kNu = 6 };
const char* const kModName[7] = {"YoungModulus", "ShearModulus", "LameFirstModulus", "IsentropicBulkModulus",
                                 "IsothermalBulkModulus", "PWaveModulus", "PoissonRatio"};

template <int I, typename T> struct Mod;
#define C12_MOD(I, Name)                                                                  \
  template <typename T> struct Mod<I, T> {                                                \
    using type = PhQ::Name<T>;                                                            \
    static type make(T v) { return from_si<type>(std::array<T, 1>{v}); }                  \
    static T get(const Solid<T>& m) { return m.Name().Value(); }                          \
  };
C12_MOD(0, YoungModulus)
C12_MOD(1, ShearModulus)
C12_MOD(2, LameFirstModulus)
C12_MOD(3, IsentropicBulkModulus)
C12_MOD(4, IsothermalBulkModulus)
C12_MOD(5, PWaveModulus)
C12_MOD(6, PoissonRatio)
#undef C12_MOD

template <typename T>
struct Ctor {
  int i, j;
  std::string name;  // "YoungModulus,PoissonRatio"
  Solid<T> (*build)(T, T);
};

template <typename T, int I, int J>
Solid<T> build_fn(T a, T b) {
  return Solid<T>(Mod<I, T>::make(a), Mod<J, T>::make(b));
}

template <typename T, int P>
void add_ctor(std::vector<Ctor<T>>& v) {
  constexpr int I = P / 7, J = P % 7;
  if constexpr (std::is_constructible_v<Solid<T>, const typename Mod<I, T>::type&, const typename Mod<J, T>::type&>) {
    v.push_back(Ctor<T>{I, J, std::string(kModName[I]) + "," + kModName[J], &build_fn<T, I, J>});
  }
}
template <typename T, int... P>
void add_ctors(std::vector<Ctor<T>>& v, std::integer_sequence<int, P...>) {
  (add_ctor<T, P>(v), ...);
}
template <typename T>
std::vector<Ctor<T>> declared_ctors() {
  std::vector<Ctor<T>> v;
  add_ctors<T>(v, std::make_integer_sequence<int, 49>{});
  return v;
}

template <typename T>
struct Getters {
  T (*get[7])(const Solid<T>&) = {&Mod<0, T>::get, &Mod<1, T>::get, &Mod<2, T>::get, &Mod<3, T>::get,
                                  &Mod<4, T>::get, &Mod<5, T>::get, &Mod<6, T>::get};
};

// ------------------------------------------------------------------------------------------------------------------
// binary128 oracle
// ------------------------------------------------------------------------------------------------------------------
const f128 QNAN = nanq("");

inline bool finiteq_(f128 v) { return v == v && fabsq(v) < 1e4900Q; }

// forward identities (property text): modulus `kind` of the material (mu, la)
inline f128 modulus_of(int kind, f128 mu, f128 la) {
  switch (kind) {
    case kE: return mu * (3 * la + 2 * mu) / (la + mu);
    case kG: return mu;
    case kL: return la;
    case kKs:
    case kKt: return la + 2 * mu / 3;
    case kM: return la + 2 * mu;
    case kNu: return la / (2 * (la + mu));
  }
  return QNAN;
}

struct ML {
  f128 mu, la;
  bool ok;                 // a unique real material with lambda >= 0 branch exists for these inputs
  const char* why = "";    // reason when !ok
};

inline int canon(int k) { return k == kKt ? kKs : k; }

// (mu, lambda) of the material whose moduli of kinds ka, kb are a, b; the root with lambda >= 0 (nu in [0, 0.5)) where
// the inversion is a quadratic.
inline ML solve(int ka, f128 a, int kb, f128 b) {
  ka = canon(ka);
  kb = canon(kb);
  if (ka > kb) {
    std::swap(ka, kb);
    std::swap(a, b);
  }
  ML r{QNAN, QNAN, false};
  const int code = ka * 8 + kb;
  switch (code) {
    case kE * 8 + kG: {  // E = mu(3la+2mu)/(la+mu)  =>  la = mu (E - 2 mu) / (3 mu - E)
      r.mu = b;
      r.la = b * (a - 2 * b) / (3 * b - a);
      break;
    }
    case kE * 8 + kL: {  // 2 mu^2 + (3 la - E) mu - E la = 0, positive root
      const f128 E = a, L = b;
      const f128 R = sqrtq(E * E + 9 * L * L + 2 * E * L);
      const f128 t = 3 * L - E;
      r.mu = t > 0 ? 2 * E * L / (R + t) : (R - t) / 4;
      r.la = L;
      break;
    }
    case kE * 8 + kKs: {  // E = 9 K mu / (3 K + mu)
      const f128 E = a, K = b;
      r.mu = 3 * K * E / (9 * K - E);
      r.la = 3 * K * (3 * K - E) / (9 * K - E);
      break;
    }
    case kE * 8 + kM: {  // 8 mu^2 - 2 (3M + E) mu + 2 E M = 0 ... root with lambda = M - 2 mu >= 0
      const f128 E = a, M = b;
      if (M < E) {
        r.why = "E>M: no real material";
        return r;
      }
      const f128 S = sqrtq((M - E) * (9 * M - E));
      r.mu = 2 * E * M / (3 * M + E + S);
      r.la = (M - E + S) / 4;
      break;
    }
    case kE * 8 + kNu: {
      r.mu = a / (2 * (1 + b));
      r.la = a * b / ((1 + b) * (1 - 2 * b));
      break;
    }
    case kG * 8 + kL: r.mu = a; r.la = b; break;
    case kG * 8 + kKs: r.mu = a; r.la = b - 2 * a / 3; break;
    case kG * 8 + kM: r.mu = a; r.la = b - 2 * a; break;
    case kG * 8 + kNu: r.mu = a; r.la = 2 * a * b / (1 - 2 * b); break;
    case kL * 8 + kKs: r.mu = 3 * (b - a) / 2; r.la = a; break;
    case kL * 8 + kM: r.mu = (b - a) / 2; r.la = a; break;
    case kL * 8 + kNu: {
      if (b == 0) {
        r.why = "(lambda, nu) with nu = 0 does not determine mu";
        return r;
      }
      r.mu = a * (1 - 2 * b) / (2 * b);
      r.la = a;
      break;
    }
    case kKs * 8 + kM: r.mu = 3 * (b - a) / 4; r.la = (3 * a - b) / 2; break;
    case kKs * 8 + kNu: r.mu = 3 * a * (1 - 2 * b) / (2 * (1 + b)); r.la = 3 * a * b / (1 + b); break;
    case kM * 8 + kNu: r.mu = b == 1 ? QNAN : a * (1 - 2 * b) / (2 * (1 - b)); r.la = a * b / (1 - b); break;
    default: r.why = "pair does not determine a material"; return r;
  }
  if (!finiteq_(r.mu) || !finiteq_(r.la)) {
    r.why = "not finite";
    return r;
  }
  r.ok = true;
  return r;
}

// start-up validation of solve() against the forward identities
bool oracle_selftest(std::string& msg) {
  const f128 mus[] = {1.0Q, 7.3e9Q, 3.1e-5Q};
  const f128 nus[] = {0.0Q, 1e-9Q, 0.25Q, 0.3Q, 0.499Q, 0.499999Q};
  for (f128 mu : mus) {
    for (f128 nu : nus) {
      const f128 la = 2 * mu * nu / (1 - 2 * nu);
      for (int a = 0; a < 7; ++a) {
        for (int b = 0; b < 7; ++b) {
          if (canon(a) == canon(b)) continue;
          if (nu == 0 && ((a == kL && b == kNu) || (a == kNu && b == kL))) continue;
          const ML r = solve(a, modulus_of(a, mu, la), b, modulus_of(b, mu, la));
          // the square roots at nu -> 0 lose half the digits of the *inputs* (forward values carry 1e-34 relative error)
          const f128 tol = (nu < 1e-6Q && (canon(a) + canon(b) == kE + kM) && (a == kE || b == kE)) ? 1e-15Q : 1e-24Q;
          if (!r.ok || fabsq(r.mu - mu) > tol * mu || fabsq(r.la - la) > tol * (mu + la)) {
            msg = std::string("solve(") + kModName[a] + "," + kModName[b] + ") mu=" + q2s(mu) + " nu=" + q2s(nu) +
                  " gives mu=" + q2s(r.mu) + " la=" + q2s(r.la) + " want la=" + q2s(la);
            return false;
          }
        }
      }
    }
  }
  return true;
}

// largest change of fn when each x[i] is moved by +-h[i] (NaN evaluations ignored)
template <typename F>
f128 sens_max(F&& fn, std::vector<f128> x, const std::vector<f128>& h) {
  const f128 r0 = fn(x);
  f128 d = 0;
  for (size_t i = 0; i < x.size(); ++i) {
    const f128 keep = x[i];
    for (int s = 0; s < 2; ++s) {
      x[i] = s ? keep + h[i] : keep - h[i];
      const f128 c = fabsq(fn(x) - r0);
      if (c == c && c > d) d = c;
    }
    x[i] = keep;
  }
  return d;
}

// sum over inputs of the larger one-sided change (first-order propagation of independent input errors);
// an infinite or undefined change makes the result infinite (no statement possible)
template <typename F>
f128 sens_sum(F&& fn, std::vector<f128> x, const std::vector<f128>& h) {
  const f128 r0 = fn(x);
  f128 tot = 0;
  for (size_t i = 0; i < x.size(); ++i) {
    const f128 keep = x[i];
    f128 d = 0;
    for (int s = 0; s < 2; ++s) {
      x[i] = s ? keep + h[i] : keep - h[i];
      const f128 c = fabsq(fn(x) - r0);
      if (!(c == c)) d = HUGE_VALQ;
      else if (c > d) d = c;
    }
    x[i] = keep;
    tot += d;
  }
  return tot;
}

template <typename T>
inline double err_units(T got, f128 ref, f128 unit) {
  if (got != got || std::isinf(static_cast<long double>(got))) return std::numeric_limits<double>::infinity();
  if (!(unit == unit)) return std::numeric_limits<double>::infinity();
  if (unit >= HUGE_VALQ) return 0.0;
  const f128 d = fabsq(static_cast<f128>(got) - ref);
  if (d == 0) return 0.0;
  const f128 e = d / unit;
  return e > 1e300Q ? 1e300 : static_cast<double>(e);
}

inline double q2d(f128 v) {
  if (!(v == v)) return std::numeric_limits<double>::quiet_NaN();
  if (v > 1e300Q) return 1e300;
  return static_cast<double>(v);
}

// input class of a material by its exact Poisson ratio: the part of the violation key that names the regime
inline const char* regime(f128 nu) { return nu < 0.01Q ? "nu<0.01" : nu < 0.4Q ? "0.01<=nu<0.4" : "nu>=0.4"; }

// ------------------------------------------------------------------------------------------------------------------
// ground-truth materials
// ------------------------------------------------------------------------------------------------------------------
struct Material {
  f128 mod[7];
  std::string nu_class;
};

constexpr int kNuClasses = 12;

template <typename T>
Material make_material(Rng& rng, uint64_t index) {
  // mu: log-uniform over 1e-6 .. 1e12 Pa (float: 1e-4 .. 1e8 Pa so that the squares in the constructors stay finite)
  const int elo = std::is_same_v<T, float> ? -13 : -20, ehi = std::is_same_v<T, float> ? 27 : 40;
  const f128 mu = static_cast<f128>(rng.logu<T>(elo, ehi));
  f128 nu;
  Material m;
  switch (index % kNuClasses) {
    case 0: nu = 0; m.nu_class = "nu=0"; break;
    case 1: nu = 1e-9Q; m.nu_class = "nu=1e-9"; break;
    case 2: nu = 0.25Q; m.nu_class = "nu=0.25"; break;
    case 3: nu = 0.3Q; m.nu_class = "nu=0.3"; break;
    case 4: nu = 0.499Q; m.nu_class = "nu=0.499"; break;
    case 5: nu = 0.499999Q; m.nu_class = "nu=0.499999"; break;
    case 6:
    case 7:
    case 8: nu = static_cast<f128>(rng.unit()) * 0.5Q; m.nu_class = "nu=uniform[0,0.5)"; break;
    case 9: nu = powq(10.0Q, -12 + 11 * static_cast<f128>(rng.unit())); m.nu_class = "nu=log-uniform(1e-12,0.1)"; break;
    default: {  // 0.5 - 2^-k m, k in [2, 20]
      nu = 0.5Q - ldexpq(static_cast<f128>(rng.mantissa<double>()), -rng.range(3, 21));
      m.nu_class = "nu=0.5-log-uniform(2^-20,0.25)";
    }
  }
  const f128 la = 2 * mu * nu / (1 - 2 * nu);
  m.mod[kE] = 2 * mu * (1 + nu);
  m.mod[kG] = mu;
  m.mod[kL] = la;
  m.mod[kKs] = m.mod[kKt] = la + 2 * mu / 3;
  m.mod[kM] = la + 2 * mu;
  m.mod[kNu] = nu;
  return m;
}

template <typename T>
bool usable_state(T mu, T la) {
  return std::isfinite(mu) && std::isfinite(la) && mu > 0 && la + mu > 0;
}

// ------------------------------------------------------------------------------------------------------------------
// (1) (2) (3): constructors, accessors, identities, rebuild
// ------------------------------------------------------------------------------------------------------------------
template <typename T>
struct ModelChecks {
  Reporter& R;
  const Args& A;
  std::vector<Ctor<T>> ctors;
  Getters<T> G;
  const std::string tn = Num<T>::name;

  ModelChecks(Reporter& r, const Args& a) : R(r), A(a), ctors(declared_ctors<T>()) {
    for (auto& c : ctors) R.list(std::string("declared_constructors_") + Num<T>::name, c.name);
    R.maxi(std::string("declared_constructor_count_") + Num<T>::name, static_cast<double>(ctors.size()));
  }

  // accessors of a model against binary128 of its own stored state: the four identities (+ the trivial two)
  void identities(const Solid<T>& m, const std::string& origin, const std::string& nu_class) {
    const T mu = G.get[kG](m), la = G.get[kL](m);
    if (!usable_state(mu, la)) return;
    for (int k : {kE, kKs, kKt, kM, kNu}) {
      const T got = G.get[k](m);
      auto fn = [&](const std::vector<f128>& x) { return modulus_of(k, x[0], x[1]); };
      const f128 ref = modulus_of(k, static_cast<f128>(mu), static_cast<f128>(la));
      const f128 delta = sensitivity<T>(fn, std::vector<T>{mu, la});
      const double e = cond_error<T>(got, ref, delta);
      R.eval();
      R.count(std::string("identity|") + kModName[k] + "|" + tn);
      R.maxi(std::string("err_identity|") + kModName[k] + "|" + tn, e);
      R.nontrivial("identity|" + std::string(kModName[k]) + "|" + tn + "|" + nu_class);
      if (!(e <= kK)) {
        R.violation(std::string("C12|identity=") + kModName[k] + "|" + tn,
                    J().s("model_built_by", origin).s("class", nu_class).num("stored_mu", mu).num("stored_lambda", la)
                        .num("reported", got).q("exact_from_stored_state", ref).q("delta", delta).d("error_in_bound_units", e)
                        .d("bound", kK).str());
      }
    }
  }

  void one_material(uint64_t index) {
    Rng rng(mix(mix(A.seed, index), 1200 + Num<T>::idx));
    const Material gt = make_material<T>(rng, index);
    const size_t origin_index = static_cast<size_t>(index / kNuClasses) % (ctors.empty() ? 1 : ctors.size());
    bool have_origin = false;
    T origin_mu = 0, origin_la = 0;
    T origin_rep[7] = {};
    std::string origin_name;

    for (size_t ci = 0; ci < ctors.size(); ++ci) {
      const Ctor<T>& c = ctors[ci];
      const T a = static_cast<T>(gt.mod[c.i]), b = static_cast<T>(gt.mod[c.j]);
      const std::string key = "C12|ctor=" + c.name;
      crumb(R, key + "|" + tn, index);
      T rep[7];
      bool threw = !guarded(R, key + "|" + tn, [&] {
        const Solid<T> m = c.build(a, b);
        for (int k = 0; k < 7; ++k) rep[k] = G.get[k](m);
        // (1) stored state and accessors against the reference from the same rounded inputs
        const f128 aq = static_cast<f128>(a), bq = static_cast<f128>(b);
        const ML ref = solve(c.i, aq, c.j, bq);
        if (!ref.ok || !(ref.mu > 0) || !(ref.la + ref.mu > 0)) {
          // the rounded pair is not a material the property speaks about (or does not determine one)
          R.count("ctor_inputs_without_reference|" + c.name + "|" + tn);
          R.list("ctor_inputs_without_reference", c.name + " " + tn + " " + gt.nu_class + ": " +
                                                      (ref.ok ? "rounded pair has mu <= 0 or lambda + mu <= 0" : ref.why) +
                                                      (rep[kG] != rep[kG] ? " (library returns NaN)" : ""));
          return;
        }
        R.count("ctor|" + c.name + "|" + tn);
        R.count("ctor_by_class|" + c.name + "|" + tn + "|" + gt.nu_class);
        R.nontrivial("ctor|" + c.name + "|" + tn + "|" + gt.nu_class);
        auto fmu = [&](const std::vector<f128>& x) { const ML r = solve(c.i, x[0], c.j, x[1]); return r.ok ? r.mu : QNAN; };
        auto fla = [&](const std::vector<f128>& x) { const ML r = solve(c.i, x[0], c.j, x[1]); return r.ok ? r.la : QNAN; };
        const std::vector<T> in{a, b};
        const f128 dmu = sensitivity<T>(fmu, in), dla = sensitivity<T>(fla, in);
        const f128 bmu = kK * (ulp_at<T>(ref.mu) + dmu), bla = kK * (ulp_at<T>(ref.la) + dla);
        const f128 refs[2] = {ref.mu, ref.la};
        const f128 deltas[2] = {dmu, dla};
        const int stored_kind[2] = {kG, kL};
        const std::string reg = regime(modulus_of(kNu, ref.mu, ref.la));
        bool state_ok = true;
        if (rep[kG] != rep[kG] || rep[kL] != rep[kL]) R.count("nan_state|" + c.name + "|" + tn + "|" + gt.nu_class);
        for (int s = 0; s < 2; ++s) {
          const T got = rep[stored_kind[s]];
          const double e = cond_error<T>(got, refs[s], deltas[s]);
          R.eval();
          R.count(std::string("accessor|") + kModName[stored_kind[s]] + "|" + tn);
          R.maxi("err_ctor|" + c.name + "|" + tn, e);
          // how much of the bound is conditioning: Delta in ulps of max(|ref|, mu) (lambda -> 0 at nu -> 0 is not the point)
          R.maxi(std::string("delta_over_ulp|") + (s ? "lambda|" : "mu|") + c.name + "|" + tn,
                 q2d(deltas[s] / ulp_at<T>(fabsq(refs[s]) > ref.mu ? refs[s] : ref.mu)));
          if (!(e <= kK)) {
            state_ok = false;
            R.violation(key + "|accessor=" + kModName[stored_kind[s]] + "|" + reg + "|" + tn,
                        J().s("class", gt.nu_class).num("a", a).num("b", b).num("got", got).q("exact", refs[s])
                            .q("delta", deltas[s]).q("ulp", ulp_at<T>(refs[s])).d("error_in_bound_units", e).d("bound", kK)
                            .d("error_ulps", ulps<T>(got, refs[s])).q("exact_nu", modulus_of(kNu, ref.mu, ref.la)).str());
          } else if (R.want_sample() && e > 0.5 && s == 0) {
            R.sample(J().s("what", "constructor").s("ctor", c.name).s("numeric_type", tn).s("class", gt.nu_class).num("a", a)
                         .num("b", b).num("stored_mu", got).q("exact_mu", refs[s]).d("error_in_bound_units", e)
                         .d("delta_over_ulp", q2d(deltas[s] / ulp_at<T>(refs[s]))).str());
          }
        }
        // derived accessors, end to end: own rounding (4 ulp) + the allowed error of the stored state propagated
        // (not judged when the stored state itself is already in violation: the consequence would only repeat it)
        if (!state_ok) R.count("accessor_checks_skipped_after_state_violation|" + c.name + "|" + tn);
        for (int k : {kE, kKs, kKt, kM, kNu}) {
          if (!state_ok) break;
          const f128 r = modulus_of(k, ref.mu, ref.la);
          auto facc = [&](const std::vector<f128>& x) { return modulus_of(k, x[0], x[1]); };
          const f128 prop = sens_sum(facc, {ref.mu, ref.la}, {bmu, bla});
          const f128 allowed = kK * ulp_at<T>(r) + prop;
          const double e = kK * err_units<T>(rep[k], r, allowed);
          R.eval();
          R.count(std::string("accessor|") + kModName[k] + "|" + tn);
          R.maxi(std::string("err_accessor|") + kModName[k] + "|" + tn, e);
          R.maxi(std::string("err_accessor_by_ctor|") + kModName[k] + "<-" + c.name + "|" + tn, e);
          if (!(e <= kK)) {
            R.violation(key + "|accessor=" + kModName[k] + "|" + reg + "|" + tn,
                        J().s("class", gt.nu_class).num("a", a).num("b", b).num("got", rep[k]).q("exact", r)
                            .q("allowed_abs_error", allowed).d("error_in_bound_units", e).d("bound", kK)
                            .d("error_ulps", ulps<T>(rep[k], r)).num("stored_mu", rep[kG]).num("stored_lambda", rep[kL])
                            .q("exact_mu", ref.mu).q("exact_lambda", ref.la).str());
          }
        }
        // (2) identities on what this model reports
        identities(m, c.name, gt.nu_class);
        // GetType, directly and through the abstract interface
        const PhQ::ConstitutiveModel& base = m;
        R.eval();
        R.count("GetType|" + tn);
        if (m.GetType() != PhQ::ConstitutiveModel::Type::ElasticIsotropicSolid ||
            base.GetType() != PhQ::ConstitutiveModel::Type::ElasticIsotropicSolid) {
          R.violation("C12|GetType|" + tn, J().i("direct", static_cast<int>(m.GetType())).i("virtual", static_cast<int>(base.GetType())).str());
        }
      });
      if (threw) continue;
      if (ci == origin_index && usable_state(rep[kG], rep[kL])) {
        have_origin = true;
        origin_mu = rep[kG];
        origin_la = rep[kL];
        for (int k = 0; k < 7; ++k) origin_rep[k] = rep[k];
        origin_name = c.name;
      }
    }

    // (3) rebuild the origin model from every pair it reports
    if (have_origin) {
      for (const Ctor<T>& c : ctors) {
        const T a = origin_rep[c.i], b = origin_rep[c.j];
        const std::string key = "C12|rebuild|pair=" + c.name;
        crumb(R, key + "|" + tn, index);
        guarded(R, key + "|" + tn, [&] {
          const Solid<T> m2 = c.build(a, b);
          const T mu2 = G.get[kG](m2), la2 = G.get[kL](m2);
          const ML ref = solve(c.i, static_cast<f128>(a), c.j, static_cast<f128>(b));
          if (!ref.ok) {
            R.count("rebuild_pair_without_reference|" + c.name + "|" + tn);
            R.list("rebuild_pair_without_reference",
                   c.name + " " + tn + " " + gt.nu_class + ": " + ref.why + (mu2 != mu2 ? " (library returns NaN)" : ""));
            // A reported (E, M) pair in which rounding left E one ulp above M (a nu = 0 material) has no exact
            // solution, but it is still the model's own pair: the rebuilt material must be a material (finite moduli)
            // and, the square root of the vanishing discriminant aside, the same one: mu within sqrt(eps)-level of the
            // original, lambda within the same absolute tolerance of zero.
            if (std::string(ref.why).rfind("E>M", 0) == 0) {
              const T mu0 = origin_rep[kG];
              const double tol = 8.0 * std::sqrt(static_cast<double>(std::numeric_limits<T>::epsilon()));
              const bool finite = mu2 == mu2 && la2 == la2 && !std::isinf(static_cast<long double>(mu2)) && !std::isinf(static_cast<long double>(la2));
              R.eval();
              if (!finite || !(std::fabs(static_cast<double>((mu2 - mu0) / mu0)) <= tol) || !(std::fabs(static_cast<double>(la2 / mu0)) <= tol)) {
                R.violation(key + "|" + gt.nu_class + "|reported-pair-with-E-above-M|" + tn,
                            J().s("constructor", c.name).s("numeric_type", tn).num("reported_first", a).num("reported_second", b)
                                .num("original_shear_modulus", mu0).num("rebuilt_shear_modulus", mu2).num("rebuilt_lame_first_modulus", la2).str());
              }
              R.count("rebuild_E_above_M_checked_finite|" + tn);
            }
            return;
          }
          R.count("rebuild|" + c.name + "|" + tn);
          R.nontrivial("rebuild|" + origin_name + "->" + c.name + "|" + tn);
          // the reported pair carries the accessors' own rounding (bound 4 ulp each): sensitivity to +-4 ulp moves
          auto fmu = [&](const std::vector<f128>& x) { const ML r = solve(c.i, x[0], c.j, x[1]); return r.ok ? r.mu : QNAN; };
          auto fla = [&](const std::vector<f128>& x) { const ML r = solve(c.i, x[0], c.j, x[1]); return r.ok ? r.la : QNAN; };
          const std::vector<f128> x{static_cast<f128>(a), static_cast<f128>(b)};
          const std::vector<f128> h{kK * ulp_at<T>(x[0]), kK * ulp_at<T>(x[1])};
          const f128 d[2] = {sens_max(fmu, x, h), sens_max(fla, x, h)};
          const T got[2] = {mu2, la2};
          const T want[2] = {origin_mu, origin_la};
          for (int s = 0; s < 2; ++s) {
            const f128 w = static_cast<f128>(want[s]);
            const double e = err_units<T>(got[s], w, ulp_at<T>(w) + d[s]);
            R.eval();
            R.maxi("err_rebuild|" + c.name + "|" + tn, e);
            if (!(e <= kK)) {
              R.violation(key + "|" + regime(modulus_of(kNu, static_cast<f128>(origin_mu), static_cast<f128>(origin_la))) + "|" + tn,
                          J().s("class", gt.nu_class).s("original_built_by", origin_name).s("which", s ? "lambda" : "mu")
                              .num("original", want[s]).num("reported_a", a).num("reported_b", b).num("rebuilt", got[s])
                              .q("exact_from_reported_pair", s ? ref.la : ref.mu).q("delta_4ulp", d[s])
                              .d("error_in_bound_units", e).d("bound", kK).str());
            }
          }
        });
      }
    }
  }
};

// ------------------------------------------------------------------------------------------------------------------
// (4) (5): stress / strain, 3 argument types, direct and virtual
// ------------------------------------------------------------------------------------------------------------------
template <typename M, typename Arg>
using Coarser = std::conditional_t<(Num<M>::idx < Num<Arg>::idx), M, Arg>;

const char* const kSlot[6] = {"xx", "xy", "xz", "yy", "yz", "zz"};
inline bool diag(int s) { return s == 0 || s == 3 || s == 5; }

constexpr int kTensorClasses = 6;
const char* const kTensorClass[kTensorClasses] = {"random-symmetric", "pure-shear-offdiagonal", "pure-shear-principal",
                                                  "pure-dilatation", "single-slot", "mixed-magnitudes"};

template <typename Arg>
std::array<Arg, 6> make_tensor(Rng& rng, int cls, Arg scale) {
  std::array<Arg, 6> e{};
  const int ex = rng.range(-30, 3);
  auto v = [&](int lo, int hi) { return rng.logu<Arg>(lo, hi, true) * scale; };
  switch (cls) {
    case 0: for (auto& x : e) x = v(ex - 2, ex); break;
    case 1: e[1] = v(ex - 2, ex); e[2] = v(ex - 2, ex); e[4] = v(ex - 2, ex); break;
    case 2: e[0] = v(ex, ex); e[3] = -e[0]; if (rng.coin()) { e[5] = e[3]; e[3] = 0; } break;
    case 3: e[0] = e[3] = e[5] = v(ex, ex); break;
    case 4: e[static_cast<size_t>(rng.below(6))] = v(ex, ex); break;
    default: for (auto& x : e) x = rng.below(5) == 0 ? static_cast<Arg>(0) : v(-30, 3); break;
  }
  return e;
}

template <typename T>
bool all_same_bits(const std::array<T, 6>& a, const std::array<T, 6>& b) {
  for (int i = 0; i < 6; ++i) if (!same_value_bits(a[i], b[i])) return false;
  return true;
}
template <typename T>
bool all_zero(const std::array<T, 6>& a) {
  for (int i = 0; i < 6; ++i) if (!(a[i] == 0)) return false;
  return true;
}

// references, x = {mu, la, t0..t5}
inline f128 ref_stress(const std::vector<f128>& x, int s) {
  f128 r = 2 * x[0] * x[2 + s];
  if (diag(s)) r += x[1] * (x[2] + x[5] + x[7]);
  return r;
}
inline f128 ref_strain(const std::vector<f128>& x, int s) {
  f128 r = x[2 + s] / (2 * x[0]);
  if (diag(s)) r -= x[1] * (x[2] + x[5] + x[7]) / (2 * x[0] * (3 * x[1] + 2 * x[0]));
  return r;
}

// the same formulas with every term taken in absolute value: the scale at which a floating-point evaluation of the
// sum of terms rounds (classical forward bound |fl(sum t_i) - sum t_i| <= gamma_n sum |t_i|)
inline f128 abs_stress(const std::vector<f128>& x, int s) {
  f128 r = 2 * fabsq(x[0] * x[2 + s]);
  if (diag(s)) r += fabsq(x[1]) * (fabsq(x[2]) + fabsq(x[5]) + fabsq(x[7]));
  return r;
}
inline f128 abs_strain(const std::vector<f128>& x, int s) {
  f128 r = fabsq(x[2 + s] / (2 * x[0]));
  if (diag(s)) r += fabsq(x[1] / (2 * x[0] * (3 * x[1] + 2 * x[0]))) * (fabsq(x[2]) + fabsq(x[5]) + fabsq(x[7]));
  return r;
}

template <typename M, typename Arg>
struct TensorChecks {
  using C = Coarser<M, Arg>;
  Reporter& R;
  const std::string mn = Num<M>::name, an = Num<Arg>::name;
  const std::string tag = "model=" + mn + "|arg=" + an;

  explicit TensorChecks(Reporter& r) : R(r) {}

  void obs(const std::string& fn, const char* how) { R.count("call|" + fn + "|" + tag + "|" + how); }

  std::vector<f128> inputs(M mu, M la, const std::array<Arg, 6>& t) {
    std::vector<f128> x{static_cast<f128>(mu), static_cast<f128>(la)};
    for (Arg v : t) x.push_back(static_cast<f128>(v));
    return x;
  }
  std::vector<f128> steps(const std::vector<f128>& x) {
    std::vector<f128> h;
    for (f128 v : x) h.push_back(ulp_at<C>(v));
    return h;
  }

  // compare `got` with the reference map `ref` at x; fills allowed[] (absolute bound per slot); returns false if a slot failed
  // unit of error = ulp(ref) + Delta + ulp(sum of |terms|), Delta = first-order change of the reference when every one
  // of the 8 inputs (mu, lambda, six slots) moves by one ulp (sum of the one-at-a-time changes), all in the coarser type
  template <typename RefFn, typename AbsFn>
  void judge(const std::string& fn, const std::string& what, RefFn&& ref, AbsFn&& absf, const std::vector<f128>& x,
             const std::array<Arg, 6>& got, std::array<f128, 6>& allowed, const std::string& cls, const std::string& nu_class,
             const std::string& maxkey) {
    const std::vector<f128> h = steps(x);
    for (int s = 0; s < 6; ++s) {
      auto f = [&](const std::vector<f128>& y) { return ref(y, s); };
      const f128 r = f(x);
      const f128 delta = sens_sum(f, x, h);
      const f128 terms = absf(x, s);
      const f128 unit = ulp_at<C>(r) + delta + ulp_at<C>(terms);
      allowed[static_cast<size_t>(s)] = kK * unit;
      R.maxi("err_ulps_of_largest_term|" + fn + "|" + tag,
             err_units<Arg>(got[static_cast<size_t>(s)], r, ulp_at<C>(terms)));
      const double e = err_units<Arg>(got[static_cast<size_t>(s)], r, unit);
      R.eval();
      R.maxi(maxkey + "|" + tag, e);
      if (!(e <= kK)) {
        std::array<Arg, 6> in{};
        for (int i = 0; i < 6; ++i) in[static_cast<size_t>(i)] = static_cast<Arg>(x[static_cast<size_t>(2 + i)]);
        R.violation("C12|" + fn + "|" + tag + "|slot=" + std::to_string(s),
                    J().s("what", what).s("slot", kSlot[s]).s("tensor_class", cls).s("class", nu_class).q("model_mu", x[0])
                        .q("model_lambda", x[1]).raw("input", jarr(in)).num("got", got[static_cast<size_t>(s)]).q("exact", r)
                        .q("delta", delta).q("ulp_of_coarser_type", ulp_at<C>(r)).q("sum_of_abs_terms", terms).d("error_in_bound_units", e).d("bound", kK)
                        .str());
      } else if (R.want_sample() && e > 1.0) {
        R.sample(J().s("what", what).s("model_type", mn).s("argument_type", an).s("slot", kSlot[s]).s("tensor_class", cls)
                     .s("class", nu_class).q("model_mu", x[0]).q("model_lambda", x[1])
                     .num("got", got[static_cast<size_t>(s)]).q("exact", r).d("error_in_bound_units", e).str());
      }
    }
  }

  void bits_check(const std::string& fn, const std::string& what, const std::array<Arg, 6>& a, const std::array<Arg, 6>& b,
                  const std::array<Arg, 6>& in, M mu, M la) {
    R.eval();
    if (!all_same_bits(a, b)) {
      R.violation("C12|" + fn + "|" + tag + "|" + what,
                  J().num("model_mu", mu).num("model_lambda", la).raw("input", jarr(in)).raw("first", jarr(a)).raw("second", jarr(b)).str());
    }
  }

  void run(const Solid<M>& model, Rng& rng, uint64_t index, int ntensors, const std::string& nu_class) {
    const PhQ::ConstitutiveModel& base = model;
    const M mu = model.ShearModulus().Value(), la = model.LameFirstModulus().Value();
    const f128 muq = static_cast<f128>(mu), laq = static_cast<f128>(la);
    const f128 bprime = laq / (2 * muq * (3 * laq + 2 * muq));
    const f128 inv2mu = 1 / (2 * muq);
    for (int t = 0; t < ntensors; ++t) {
      const int cls = static_cast<int>((index + static_cast<uint64_t>(t)) % kTensorClasses);
      const std::string cname = kTensorClass[cls];
      // ---------------- Stress(strain) ----------------
      const std::array<Arg, 6> eps = make_tensor<Arg>(rng, cls, static_cast<Arg>(1));
      const std::array<Arg, 6> rate = make_tensor<Arg>(rng, static_cast<int>(rng.below(kTensorClasses)), static_cast<Arg>(1));
      const PhQ::Strain<Arg> strain(FromArr<PhQ::SymmetricDyad<Arg>>::make(eps));
      const PhQ::StrainRate<Arg> strain_rate(FromArr<PhQ::SymmetricDyad<Arg>>::make(rate), PhQ::Unit::Frequency::Hertz);
      crumb(R, "C12|Stress(strain)|" + tag, index);
      const std::array<Arg, 6> sd = to_arr(model.Stress(strain).Value());
      obs("Stress(strain)", "direct");
      const std::array<Arg, 6> sv = to_arr(base.Stress(strain).Value());
      obs("Stress(strain)", "virtual");
      bits_check("Stress(strain)", "virtual!=direct", sd, sv, eps, mu, la);
      crumb(R, "C12|Stress(strain,strain rate)|" + tag, index);
      const std::array<Arg, 6> srd = to_arr(model.Stress(strain, strain_rate).Value());
      obs("Stress(strain,strain rate)", "direct");
      const std::array<Arg, 6> srv = to_arr(base.Stress(strain, strain_rate).Value());
      obs("Stress(strain,strain rate)", "virtual");
      bits_check("Stress(strain,strain rate)", "differs-from-Stress(strain)", sd, srd, eps, mu, la);
      bits_check("Stress(strain,strain rate)", "virtual!=direct", srd, srv, eps, mu, la);
      crumb(R, "C12|Stress(strain rate)|" + tag, index);
      const std::array<Arg, 6> zd = to_arr(model.Stress(strain_rate).Value());
      obs("Stress(strain rate)", "direct");
      const std::array<Arg, 6> zv = to_arr(base.Stress(strain_rate).Value());
      obs("Stress(strain rate)", "virtual");
      R.eval();
      if (!all_zero(zd) || !all_zero(zv)) {
        R.violation("C12|Stress(strain rate)|" + tag + "|not-zero",
                    J().raw("strain_rate", jarr(rate)).raw("direct", jarr(zd)).raw("virtual", jarr(zv)).str());
      }
      R.nontrivial("Stress(strain)|" + tag + "|" + cname + "|" + nu_class);
      std::array<f128, 6> allowed_c{};
      const std::vector<f128> xe = inputs(mu, la, eps);
      judge("Stress(strain)", "Stress(strain) vs 2 mu eps + lambda tr(eps) I", ref_stress, abs_stress, xe, sd, allowed_c, cname, nu_class, "err_stress");

      // ---------------- Strain(Stress(strain)) ----------------
      bool finite = true;
      for (Arg v : sd) finite = finite && std::isfinite(v);
      if (finite) {
        const PhQ::Stress<Arg> stress(FromArr<PhQ::SymmetricDyad<Arg>>::make(sd), PhQ::Unit::Pressure::Pascal);
        crumb(R, "C12|Strain(stress)|" + tag, index);
        const std::array<Arg, 6> ed = to_arr(model.Strain(stress).Value());
        obs("Strain(stress)", "direct");
        const std::array<Arg, 6> ev = to_arr(base.Strain(stress).Value());
        obs("Strain(stress)", "virtual");
        bits_check("Strain(stress)", "virtual!=direct", ed, ev, sd, mu, la);
        std::array<f128, 6> allowed_s{};
        judge("Strain(stress)", "Strain(sigma) vs sigma/(2mu) - lambda tr(sigma)/(2mu(3lambda+2mu)) I (sigma = Stress(eps))",
              ref_strain, abs_strain, inputs(mu, la, sd), ed, allowed_s, cname, nu_class, "err_strain");
        // round trip against eps: Strain's own bound + Stress's bound carried through the exact inverse map
        for (int s = 0; s < 6; ++s) {
          f128 carried;
          if (diag(s)) {
            f128 others = 0;
            for (int o : {0, 3, 5}) if (o != s) others += allowed_c[static_cast<size_t>(o)];
            carried = fabsq(inv2mu - bprime) * allowed_c[static_cast<size_t>(s)] + fabsq(bprime) * others;
          } else {
            carried = inv2mu * allowed_c[static_cast<size_t>(s)];
          }
          const f128 allowed = allowed_s[static_cast<size_t>(s)] + carried;
          const double e = kK * err_units<Arg>(ed[static_cast<size_t>(s)], static_cast<f128>(eps[static_cast<size_t>(s)]), allowed);
          R.eval();
          R.maxi("err_roundtrip_Strain(Stress(eps))|" + tag, e);
          if (!(e <= kK)) {
            R.violation("C12|Strain(Stress(strain))|" + tag + "|slot=" + std::to_string(s),
                        J().s("slot", kSlot[s]).s("tensor_class", cname).s("class", nu_class).num("model_mu", mu)
                            .num("model_lambda", la).raw("strain", jarr(eps)).raw("stress", jarr(sd)).raw("strain_back", jarr(ed))
                            .q("allowed_abs_error", allowed).d("error_in_bound_units", e).d("bound", kK).str());
          }
        }
      }

      // ---------------- Strain(stress) on an independent stress, StrainRate(stress), Stress(Strain(stress)) ----------------
      const std::array<Arg, 6> sig = make_tensor<Arg>(rng, cls, static_cast<Arg>(mu));
      bool sfinite = true;
      for (Arg v : sig) sfinite = sfinite && std::isfinite(v);
      if (!sfinite) continue;
      const PhQ::Stress<Arg> stress2(FromArr<PhQ::SymmetricDyad<Arg>>::make(sig), PhQ::Unit::Pressure::Pascal);
      crumb(R, "C12|Strain(stress)|" + tag, index);
      const std::array<Arg, 6> e2d = to_arr(model.Strain(stress2).Value());
      obs("Strain(stress)", "direct");
      const std::array<Arg, 6> e2v = to_arr(base.Strain(stress2).Value());
      obs("Strain(stress)", "virtual");
      bits_check("Strain(stress)", "virtual!=direct", e2d, e2v, sig, mu, la);
      R.nontrivial("Strain(stress)|" + tag + "|" + cname + "|" + nu_class);
      std::array<f128, 6> allowed_s2{};
      judge("Strain(stress)", "Strain(sigma) vs sigma/(2mu) - lambda tr(sigma)/(2mu(3lambda+2mu)) I", ref_strain,
            abs_strain, inputs(mu, la, sig), e2d, allowed_s2, cname, nu_class, "err_strain");
      crumb(R, "C12|StrainRate(stress)|" + tag, index);
      const std::array<Arg, 6> rd = to_arr(model.StrainRate(stress2).Value());
      obs("StrainRate(stress)", "direct");
      const std::array<Arg, 6> rv = to_arr(base.StrainRate(stress2).Value());
      obs("StrainRate(stress)", "virtual");
      R.eval();
      if (!all_zero(rd) || !all_zero(rv)) {
        R.violation("C12|StrainRate(stress)|" + tag + "|not-zero",
                    J().raw("stress", jarr(sig)).raw("direct", jarr(rd)).raw("virtual", jarr(rv)).str());
      }
      bool efinite = true;
      for (Arg v : e2d) efinite = efinite && std::isfinite(v);
      if (!efinite) continue;
      const PhQ::Strain<Arg> strain2(FromArr<PhQ::SymmetricDyad<Arg>>::make(e2d));
      crumb(R, "C12|Stress(strain)|" + tag, index);
      const std::array<Arg, 6> s2d = to_arr(model.Stress(strain2).Value());
      obs("Stress(strain)", "direct");
      std::array<f128, 6> allowed_c2{};
      judge("Stress(strain)", "Stress(strain) vs 2 mu eps + lambda tr(eps) I (eps = Strain(sigma))", ref_stress,
            abs_stress, inputs(mu, la, e2d), s2d, allowed_c2, cname, nu_class, "err_stress");
      for (int s = 0; s < 6; ++s) {
        f128 carried;
        if (diag(s)) {
          f128 others = 0;
          for (int o : {0, 3, 5}) if (o != s) others += allowed_s2[static_cast<size_t>(o)];
          carried = fabsq(2 * muq + laq) * allowed_s2[static_cast<size_t>(s)] + fabsq(laq) * others;
        } else {
          carried = 2 * muq * allowed_s2[static_cast<size_t>(s)];
        }
        const f128 allowed = allowed_c2[static_cast<size_t>(s)] + carried;
        const double e = kK * err_units<Arg>(s2d[static_cast<size_t>(s)], static_cast<f128>(sig[static_cast<size_t>(s)]), allowed);
        R.eval();
        R.maxi("err_roundtrip_Stress(Strain(sigma))|" + tag, e);
        if (!(e <= kK)) {
          R.violation("C12|Stress(Strain(stress))|" + tag + "|slot=" + std::to_string(s),
                      J().s("slot", kSlot[s]).s("tensor_class", cname).s("class", nu_class).num("model_mu", mu)
                          .num("model_lambda", la).raw("stress", jarr(sig)).raw("strain", jarr(e2d)).raw("stress_back", jarr(s2d))
                          .q("allowed_abs_error", allowed).d("error_in_bound_units", e).d("bound", kK).str());
        }
      }
    }
  }
};

template <typename M>
void run_model_type(Reporter& R, const Args& A) {
  ModelChecks<M> mc(R, A);
  const long long n = A.n("materials", A.thorough() ? 90000 : 4800);
  const int ntensors = static_cast<int>(A.n("tensors", A.thorough() ? 3 : 2));
  TensorChecks<M, float> tf(R);
  TensorChecks<M, double> td(R);
  TensorChecks<M, long double> tl(R);
  for (long long i = 0; i < n; ++i) {
    const uint64_t index = static_cast<uint64_t>(i);
    if (!A.mine(index)) continue;
    mc.one_material(index);
    // the model for the tensor tests: built by a rotating constructor from the same ground truth
    if (mc.ctors.empty()) continue;
    Rng rng(mix(mix(A.seed, index), 1200 + Num<M>::idx));
    const Material gt = make_material<M>(rng, index);
    const Ctor<M>& c = mc.ctors[static_cast<size_t>((index / kNuClasses) % mc.ctors.size())];
    Rng trng(mix(mix(A.seed, index), 7700 + Num<M>::idx));
    guarded(R, "C12|tensor-tests|model=" + std::string(Num<M>::name), [&] {
      Solid<M> model = c.build(static_cast<M>(gt.mod[c.i]), static_cast<M>(gt.mod[c.j]));
      if (!usable_state(model.ShearModulus().Value(), model.LameFirstModulus().Value()) ||
          model.LameFirstModulus().Value() < 0) {
        // fall back to the state-defining constructor (mu, lambda) so that the tensor tests always run
        R.count(std::string("tensor_model_fallback|") + Num<M>::name);
        model = Solid<M>(Mod<kG, M>::make(static_cast<M>(gt.mod[kG])), Mod<kL, M>::make(static_cast<M>(gt.mod[kL])));
      }
      R.count(std::string("tensor_models|") + Num<M>::name);
      tf.run(model, trng, index, ntensors, gt.nu_class);
      td.run(model, trng, index, ntensors, gt.nu_class);
      tl.run(model, trng, index, ntensors, gt.nu_class);
    });
  }
}

}  // namespace

void VERIF_THIS_PART(Reporter& R, const Args& A) {
  if constexpr (VERIF_IN_PART(0)) run_model_type<float>(R, A);
  if constexpr (VERIF_IN_PART(1)) run_model_type<double>(R, A);
  if constexpr (VERIF_IN_PART(2)) run_model_type<long double>(R, A);
}

#if VERIF_PART == 0
int main(int argc, char** argv) {
  Args A = parse_args(argc, argv);
  std::string msg;
  if (!oracle_selftest(msg)) {
    std::fprintf(stderr, "C12 oracle self-test failed: %s\n", msg.c_str());
    return 3;
  }
  Reporter R(A.out);
  verif_run_parts(R, A);
  return R.finish();
}
#endif
