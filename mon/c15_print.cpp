// C15 (number level): PhQ::Print(x) has exactly max_digits10+1 significant digits, fixed notation for
// 0.001 <= |x| < 10000 and scientific otherwise (decided by EXACT decimal comparison in binary128), "0" for
// either zero, and PhQ::ParseNumber<T>(Print(x)) returns x bit for bit.
#include "PhQ/Base.hpp"
#include "common/verif.hpp"

using namespace verif;

struct Parsed {
  bool ok = false, neg = false, sci = false;
  int sig = 0;         // significant digits of the mantissa, from the first non-zero digit to its end
  int int_digits = 0;  // digits before the decimal point
  bool has_point = false;
};

static Parsed parse_printed(const std::string& s) {
  Parsed p;
  size_t i = 0;
  if (i < s.size() && s[i] == '-') {
    p.neg = true;
    ++i;
  }
  std::string digits;
  size_t start = i;
  while (i < s.size() && std::isdigit(static_cast<unsigned char>(s[i]))) digits.push_back(s[i++]);
  p.int_digits = static_cast<int>(i - start);
  if (p.int_digits == 0) return p;
  if (p.int_digits > 1 && s[start] == '0') return p;  // no leading zeros like 007
  if (i < s.size() && s[i] == '.') {
    p.has_point = true;
    ++i;
    size_t f0 = i;
    while (i < s.size() && std::isdigit(static_cast<unsigned char>(s[i]))) digits.push_back(s[i++]);
    if (i == f0) return p;
  }
  if (i < s.size() && (s[i] == 'e')) {
    p.sci = true;
    ++i;
    if (i >= s.size() || (s[i] != '+' && s[i] != '-')) return p;
    ++i;
    size_t e0 = i;
    while (i < s.size() && std::isdigit(static_cast<unsigned char>(s[i]))) ++i;
    if (i - e0 < 2) return p;
  }
  if (i != s.size()) return p;
  size_t nz = 0;
  while (nz < digits.size() && digits[nz] == '0') ++nz;
  p.sig = static_cast<int>(digits.size() - nz);
  p.ok = true;
  return p;
}

template <typename T>
static void check_one(Reporter& R, T x, const char* cls) {
  const std::string tn = Num<T>::name;
  if (x != x || std::isinf(static_cast<long double>(x))) return;
  const T ax = x < 0 ? -x : x;
  if (ax != 0 && ax < std::numeric_limits<T>::min()) {
    R.count("subnormals_skipped");
    return;
  }
  std::string s;
  if (!guarded(R, "C15|Print|" + tn, [&] { s = PhQ::Print(x); })) return;
  R.eval();
  auto detail = [&](const char* what) { return J().s("what", what).s("class", cls).num("x", x).s("printed", s).str(); };
  if (x == 0) {
    if (s != "0") R.violation("C15|" + tn + "|zero", detail("zero must print as 0"));
    return;
  }
  // exact decimal classification: ax is exact in binary128 and so are 1000*ax, 100*ax, 10*ax
  const f128 q = static_cast<f128>(ax);
  const bool fixed_expected = (q * 1000 >= 1) && (q < 10000);
  const char* interval = q * 1000 < 1 ? "below-1e-3" : q * 100 < 1 ? "[1e-3,1e-2)" : q * 10 < 1 ? "[1e-2,1e-1)"
                         : q < 1 ? "[1e-1,1)" : q < 10 ? "[1,10)" : q < 100 ? "[10,100)" : q < 1000 ? "[100,1e3)"
                         : q < 10000 ? "[1e3,1e4)" : "from-1e4";
  const Parsed p = parse_printed(s);
  const std::string key = "C15|" + tn + "|" + interval;
  if (!p.ok) {
    R.violation(key + "|malformed", detail("not a decimal number in fixed or d.ddde+XX form"));
    return;
  }
  if (p.neg != (x < 0)) R.violation(key + "|sign", detail("sign"));
  if (p.sci == fixed_expected) {
    R.violation(key + "|notation", detail(fixed_expected ? "expected fixed notation" : "expected scientific notation"));
  }
  if (p.sci && (p.int_digits != 1 || !p.has_point)) R.violation(key + "|notation", detail("scientific mantissa must be d.ddd"));
  const int want = std::numeric_limits<T>::max_digits10 + 1;
  if (p.sig != want) {
    R.violation(key + "|digits", J().s("what", "significant digits").s("class", cls).num("x", x).s("printed", s)
                                     .i("significant_digits", p.sig).i("expected", want).str());
  }
  // lossless: parse back
  std::optional<T> back;
  guarded(R, "C15|ParseNumber|" + tn, [&] { back = PhQ::ParseNumber<T>(s); });
  R.eval();
  if (!back.has_value() || !same_bits(back.value(), x)) {
    R.violation(key + "|round-trip", J().s("class", cls).num("x", x).s("printed", s)
                                         .s("parsed_bits", back.has_value() ? bits(back.value()) : "nullopt").str());
  }
  R.nontrivial(hash_str(key + "|" + cls + (x < 0 ? "|neg" : "|pos")));
  if (R.want_sample() && (R.evaluations % 9973) < 2) R.sample(detail("sample"));
}

template <typename T>
static void boundaries(Reporter& R, int radius) {
  const long double th[] = {1e-3L, 1e-2L, 1e-1L, 1.0L, 10.0L, 100.0L, 1000.0L, 10000.0L};
  for (long double t : th) {
    // the T nearest to the decimal threshold, the T nearest to the double-rounded literal, and neighbours
    for (T c : {static_cast<T>(t), static_cast<T>(static_cast<double>(t)), static_cast<T>(static_cast<float>(t))}) {
      T up = c, dn = c;
      check_one<T>(R, c, "boundary");
      check_one<T>(R, -c, "boundary");
      for (int i = 0; i < radius; ++i) {
        up = std::nextafter(up, std::numeric_limits<T>::infinity());
        dn = std::nextafter(dn, static_cast<T>(0));
        check_one<T>(R, up, "boundary");
        check_one<T>(R, dn, "boundary");
        check_one<T>(R, -up, "boundary");
      }
    }
  }
  // the slivers between a decimal threshold and its double / float rounding
  Rng rng(0xC15515);
  for (long double t : th) {
    for (T other : {static_cast<T>(static_cast<double>(t)), static_cast<T>(static_cast<float>(t))}) {
      const T a = static_cast<T>(t);
      if (a == other) continue;
      for (int i = 0; i < 400; ++i) {
        const T v = a + (other - a) * static_cast<T>(rng.unit());
        check_one<T>(R, v, "sliver");
        check_one<T>(R, -v, "sliver");
      }
    }
  }
  // extremes of the normal range
  for (T v : {std::numeric_limits<T>::min(), std::numeric_limits<T>::max(), std::numeric_limits<T>::epsilon(),
              std::nextafter(std::numeric_limits<T>::max(), static_cast<T>(0)), static_cast<T>(0), -static_cast<T>(0)}) {
    check_one<T>(R, v, "extreme");
    check_one<T>(R, -v, "extreme");
  }
}

// stratified random bit patterns: uniform over sign x exponent x mantissa
template <typename T>
static T random_pattern(Rng& rng) {
  const int e = rng.range(Num<T>::emin, Num<T>::emax);
  T m = rng.mantissa<T>();
  T v = std::ldexp(m, e);
  if (std::isinf(static_cast<long double>(v))) v = std::numeric_limits<T>::max();
  return rng.coin() ? -v : v;
}

// values dense around the notation intervals (where Print's cascade branches)
template <typename T>
static T random_mid(Rng& rng) {
  const int e = rng.range(-14, 17);
  T v = std::ldexp(rng.mantissa<T>(), e);
  return rng.coin() ? -v : v;
}

template <typename T>
static void random_run(Reporter& R, const Args& A, long long n) {
  Rng rng(mix(mix(A.seed, 0xC15), mix(A.shard, Num<T>::idx)));
  R.crumb(std::string("C15|Print|") + Num<T>::name);
  for (long long i = 0; i < n; ++i) {
    if (i & 1) check_one<T>(R, random_pattern<T>(rng), "stratified-random-bits");
    else check_one<T>(R, random_mid<T>(rng), "random-near-intervals");
  }
}

static void all_floats(Reporter& R, const Args& A) {
  // every one of the 2^32 bit patterns, sharded; NaN, infinities and subnormals are counted and skipped
  R.crumb("C15|Print|float|exhaustive");
  const uint64_t total = 1ULL << 32;
  const uint64_t chunk = total / A.nshards;
  const uint64_t b = chunk * A.shard, e = (A.shard == A.nshards - 1) ? total : b + chunk;
  for (uint64_t u = b; u < e; ++u) {
    const uint32_t w = static_cast<uint32_t>(u);
    float f;
    std::memcpy(&f, &w, 4);
    if (f != f || std::isinf(f)) {
      R.count("float_nan_inf_skipped");
      continue;
    }
    check_one<float>(R, f, "all-float-bit-patterns");
  }
  R.count("float_patterns_enumerated", static_cast<long long>(e - b));
}

int main(int argc, char** argv) {
  Args A = parse_args(argc, argv);
  Reporter R(A.out);
  const int radius = A.thorough() ? 64 : 64;
  if (A.shard == 0) {
    boundaries<float>(R, radius);
    boundaries<double>(R, radius);
    boundaries<long double>(R, radius);
    R.count("boundary_sets", 3);
  }
  const long long n = A.n("random", A.thorough() ? 60000000LL : 4000000LL) / A.nshards;
  if (A.get("exhaustive_float", A.thorough() ? "1" : "0") == "1") {
    all_floats(R, A);
  } else {
    random_run<float>(R, A, n);
  }
  random_run<double>(R, A, n);
  random_run<long double>(R, A, n);
  return R.finish();
}
