// C07, observed at run time: "arithmetic on values expressed in one system's units needs no conversion factors".
// Event: (unit system s, unit type U, numeric type T, base values x_i).  The x_i are numbers in the base units of s (the
// consistent units the library returns for Time, Length, Mass, ElectricCurrent, Temperature, SubstanceAmount).  Plain
// arithmetic gives y = prod x_i^d_i, d = the declared dimension exponents of U: a number in the consistent unit of U in s if
// the system is coherent.  The library converts y to the standard unit of U, and each x_i to the standard base unit; the
// reference is the same plain arithmetic on the converted base values, in binary128.  No symbol table and no constant of
// this harness is involved: only the library's own conversions are compared with each other.
// Bound: every conversion is allowed the 16 ulps of C01, so |got - ref| <= (16 * (1 + sum|d_i|) + 1) ulps of T at ref.
#include <quadmath.h>

#include "allu.hpp"
#include "common/parts.hpp"
#include "common/reflect.hpp"
#include "common/verif.hpp"

using namespace verif;

namespace {

template <typename U, typename T>
bool convertible(U u) {
  if (u == PhQ::Standard<U>) return true;
  const auto& to = PhQ::Internal::MapOfConversionsToStandard<U, T>;
  const auto& from = PhQ::Internal::MapOfConversionsFromStandard<U, T>;
  auto a = to.find(u);
  auto b = from.find(u);
  return a != to.end() && b != from.end() && static_cast<bool>(a->second) && static_cast<bool>(b->second);
}

// the value x, given in the base unit of system s for base unit type B, in the standard unit of B
template <typename B, typename T>
bool base_to_si(PhQ::UnitSystem s, T x, f128& si, std::string& unit_id) {
  if (PhQ::Internal::ConsistentUnits<B>.count(s) != 1) return false;
  const B b = PhQ::ConsistentUnit<B>(s);
  if (!Enumerators<B>::named(b) || !convertible<B, T>(b)) return false;
  unit_id = Enumerators<B>::name(b);
  si = static_cast<f128>(PhQ::Convert<B, T>(x, b, PhQ::Standard<B>));
  return true;
}

f128 ipow(f128 v, int e) {
  f128 r = 1;
  for (int i = 0; i < (e < 0 ? -e : e); ++i) r *= v;
  return e < 0 ? 1 / r : r;
}

template <typename T>
bool in_range(f128 v) {
  const f128 a = fabsq(v);
  return a >= ldexpq(1.0Q, Num<T>::emin + 8) && a <= ldexpq(1.0Q, Num<T>::emax - 8);
}

template <typename U, typename T>
void run_type_T(Reporter& R, const Args& A, const char* tname, uint64_t tindex) {
  const PhQ::Dimensions dims = PhQ::RelatedDimensions<U>;
  const int d[7] = {static_cast<int>(dims.Time().Value()), static_cast<int>(dims.Length().Value()), static_cast<int>(dims.Mass().Value()),
                    static_cast<int>(dims.ElectricCurrent().Value()), static_cast<int>(dims.Temperature().Value()),
                    static_cast<int>(dims.SubstanceAmount().Value()), static_cast<int>(dims.LuminousIntensity().Value())};
  int weight = 0;
  for (int i = 0; i < 6; ++i) weight += d[i] < 0 ? -d[i] : d[i];
  const double bound = 16.0 * (1 + weight) + 1.0;
  const long long K = A.n("values", A.thorough() ? 20000 : 200);
  uint64_t sindex = 0;
  for (auto& sp : Enumerators<PhQ::UnitSystem>::get()) {
    ++sindex;
    if (!A.mine(tindex * 31 + sindex * 3 + Num<T>::idx)) continue;
    const PhQ::UnitSystem s = static_cast<PhQ::UnitSystem>(sp.first);
    const std::string key = std::string("C07|runtime|system=") + sp.second + "|type=" + tname + "|" + Num<T>::name;
    const std::string obs = std::string("obs|") + sp.second + "|" + tname + "|" + Num<T>::name;
    R.count(obs, 0);
    if (d[6] != 0) {
      R.list("skipped_luminous_intensity", tname);
      continue;
    }
    if (PhQ::Internal::ConsistentUnits<U>.count(s) != 1) {
      R.list("skipped_no_consistent_unit", key);  // reported as a violation by the table check
      continue;
    }
    const U cu = PhQ::ConsistentUnit<U>(s);
    if (!Enumerators<U>::named(cu) || !convertible<U, T>(cu)) {
      R.list("skipped_no_conversion", key);  // C08's finding
      continue;
    }
    R.crumb(key);
    guarded(R, key, [&] {
      Rng rng(mix(mix(A.seed, tindex * 977 + sindex), Num<T>::idx + 5));
      long long judged = 0;
      double worst = 0;
      for (long long c = 0; c < K; ++c) {
        T x[6];
        f128 si[6];
        std::string ids[6];
        const int e = std::is_same_v<T, float> ? 6 : 12;
        for (int i = 0; i < 6; ++i) x[i] = rng.logu<T>(-e, e);
        bool ok = true;
        if (d[0]) ok = ok && base_to_si<PhQ::Unit::Time, T>(s, x[0], si[0], ids[0]);
        if (d[1]) ok = ok && base_to_si<PhQ::Unit::Length, T>(s, x[1], si[1], ids[1]);
        if (d[2]) ok = ok && base_to_si<PhQ::Unit::Mass, T>(s, x[2], si[2], ids[2]);
        if (d[3]) ok = ok && base_to_si<PhQ::Unit::ElectricCurrent, T>(s, x[3], si[3], ids[3]);
        if (d[4]) ok = ok && base_to_si<PhQ::Unit::Temperature, T>(s, x[4], si[4], ids[4]);
        if (d[5]) ok = ok && base_to_si<PhQ::Unit::SubstanceAmount, T>(s, x[5], si[5], ids[5]);
        if (!ok) {
          R.list("skipped_no_base_unit", key);
          return;
        }
        // plain arithmetic in the system's own units, and the same arithmetic on the converted values
        f128 yq = 1, ref = 1;
        for (int i = 0; i < 6; ++i) {
          if (!d[i]) continue;
          yq *= ipow(static_cast<f128>(x[i]), d[i]);
          ref *= ipow(si[i], d[i]);
        }
        if (weight == 0) {  // a dimensionless type: any number, unchanged
          yq = static_cast<f128>(rng.logu<T>(-e, e, true));
          ref = yq;
        }
        if (!in_range<T>(yq) || !in_range<T>(ref)) {
          R.count("skipped_out_of_range");
          continue;
        }
        const T y = static_cast<T>(yq);
        ref *= static_cast<f128>(y) / yq;  // the rounding of y itself is not the library's
        const T got = PhQ::Convert<U, T>(y, cu, PhQ::Standard<U>);
        R.eval();
        ++judged;
        double err;
        if (got != got || std::isinf(static_cast<long double>(got))) {
          err = std::numeric_limits<double>::infinity();
        } else {
          const f128 q = fabsq(static_cast<f128>(got) - ref) / ulp_at<T>(ref);
          err = q > 1e300Q ? 1e300 : static_cast<double>(q);
        }
        if (err > worst) worst = err;
        if (!(err <= bound)) {
          std::string bases;
          for (int i = 0; i < 6; ++i)
            if (d[i]) bases += (bases.empty() ? "" : " ") + ids[i] + "^" + std::to_string(d[i]);
          J j;
          j.s("system", sp.second).s("unit_type", tname).s("consistent_unit", Enumerators<U>::name(cu)).s("base_units", bases)
              .num("value_in_consistent_unit", y).num("library_SI_value", got).q("plain_arithmetic_on_SI_base_values", ref)
              .d("error_ulps", err).d("bound_ulps", bound);
          R.violation(key, j.str());
          break;
        }
        if (R.want_sample(tindex * 100 + sindex * 10 + Num<T>::idx, 29) && weight >= 3) {
          R.sample(J().s("system", sp.second).s("unit_type", tname).s("consistent_unit", Enumerators<U>::name(cu))
                       .s("numeric_type", Num<T>::name).num("value_in_consistent_unit", y).num("library_SI_value", got)
                       .q("plain_arithmetic_on_SI_base_values", ref).d("error_ulps", err).d("bound_ulps", bound).str());
        }
      }
      R.count(obs, judged);
      R.maxi(std::string("max_error_over_bound_") + Num<T>::name, worst / bound);
      if (judged) R.nontrivial(hash_str(key));
    });
  }
}

}  // namespace

void VERIF_THIS_PART(Reporter& R, const Args& A) {
#define X(U, I)                                          \
  if constexpr (VERIF_IN_PART(I)) {                      \
    run_type_T<PhQ::Unit::U, float>(R, A, #U, I);        \
    run_type_T<PhQ::Unit::U, double>(R, A, #U, I);       \
    run_type_T<PhQ::Unit::U, long double>(R, A, #U, I);  \
  }
  VERIF_UNIT_TYPES(X)
#undef X
}

#if VERIF_PART == 0
int main(int argc, char** argv) {
  Args A = parse_args(argc, argv);
  Reporter R(A.out);
  verif_run_parts(R, A);
  return R.finish();
}
#endif
