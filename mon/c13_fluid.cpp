// C13: Newtonian fluid models -- linear viscous stress and its exact inverse.
//
// Events: for both fluid classes x 3 model numeric types M x 3 argument numeric types A, called directly and through
// `const PhQ::ConstitutiveModel&`:  Stress(D), StrainRate(sigma), Stress(eps), Strain(sigma), Stress(eps, D), the accessors
// and GetType().
// Oracle (binary128, from the same rounded inputs the library received, nothing from the code under test):
//   f(D)     = 2 mu D + mu_b tr(D) I          (mu_b = 0 for the incompressible model)
//   g(sigma) = sigma / (2 mu) - mu_b tr(sigma) / (2 mu (2 mu + 3 mu_b)) I
// Bound: |got - ref| <= K (ulp_A(largest term of the formula) + Delta), K = 4 (cond.hpp's cond_error), Delta = change of the
// reference when every input moves by one ulp of A (sensitivity_sum below).  Compositions (round trips, linearity, cross precision) use the sum of the bounds of their steps.
//
// Built as 3 translation units (-DVERIF_PART=k -DVERIF_PARTS=3): part k owns model numeric type k; part 0 also owns main()
// and the comparison across model numeric types.
#include <memory>

#include "PhQ/ConstitutiveModel/CompressibleNewtonianFluid.hpp"
#include "PhQ/ConstitutiveModel/IncompressibleNewtonianFluid.hpp"
#include "common/cond.hpp"
#include "common/parts.hpp"
#include "common/traits.hpp"

using namespace verif;

static_assert(VERIF_PARTS == 3, "c13_fluid.cpp is built as three parts, one per numeric type of the model");

#if VERIF_PART == 0
using MT = float;
#elif VERIF_PART == 1
using MT = double;
#else
using MT = long double;
#endif

static const double K = 4.0;

// What one part hands back to main() for the comparison across model numeric types (only for cases whose inputs are
// float values, hence identical in every part).  [class][argument type][slot]
struct Cross {
  bool have[2][3] = {};
  long double S[2][3][6], G[2][3][6];    // Stress(D), StrainRate(sigma)
  long double BS[2][3][6], BG[2][3][6];  // their bounds K (ulp + Delta)
};
void c13_part_0(Reporter&, const Args&, uint64_t, Cross&);
void c13_part_1(Reporter&, const Args&, uint64_t, Cross&);
void c13_part_2(Reporter&, const Args&, uint64_t, Cross&);
#define C13_CAT2(a, b) a##b
#define C13_CAT(a, b) C13_CAT2(a, b)
#define C13_THIS_PART C13_CAT(c13_part_, VERIF_PART)

// Stream of one (seed, case, salt): three chained splitmix64 rounds.  (verif::mix(seed, case) collides for small neighbouring
// arguments -- mix(2, 1327) == mix(3, 1264) -- which would make the seeds share most of their cases.)
static inline uint64_t stream_of(uint64_t seed, uint64_t ci, uint64_t salt) {
  uint64_t x = seed;
  x = splitmix64(x) + ci;
  x = splitmix64(x) + salt;
  return splitmix64(x);
}
static inline bool fexact_case(uint64_t ci) { return ci % 3 == 0; }
static inline bool wide_case(uint64_t ci) { return ci % 3 == 2; }

namespace {

using Q6 = std::array<f128, 6>;
template <typename A> using T6 = std::array<A, 6>;
constexpr bool kDiag[6] = {true, false, false, true, false, true};

struct Inc {
  template <typename M> using Model = PhQ::ConstitutiveModel::IncompressibleNewtonianFluid<M>;
  static constexpr const char* name = "Incompressible";
  static constexpr bool bulk = false;
  static constexpr int idx = 0;
  static constexpr PhQ::ConstitutiveModel::Type type = PhQ::ConstitutiveModel::Type::IncompressibleNewtonianFluid;
};
struct Com {
  template <typename M> using Model = PhQ::ConstitutiveModel::CompressibleNewtonianFluid<M>;
  static constexpr const char* name = "Compressible";
  static constexpr bool bulk = true;
  static constexpr int idx = 1;
  static constexpr PhQ::ConstitutiveModel::Type type = PhQ::ConstitutiveModel::Type::CompressibleNewtonianFluid;
};

// ---------------------------------------------------------------------------------------------------------------------
// reference maps, one slot at a time
// ---------------------------------------------------------------------------------------------------------------------
inline f128 f_slot(f128 mu, f128 mub, const f128* d, int i) {
  f128 r = 2 * mu * d[i];
  if (kDiag[i] && mub != 0) r += mub * (d[0] + d[3] + d[5]);
  return r;
}
inline f128 g_slot(f128 mu, f128 mub, const f128* s, int i) {
  f128 r = s[i] / (2 * mu);
  if (kDiag[i] && mub != 0) r -= mub * (s[0] + s[3] + s[5]) / (2 * mu * (2 * mu + 3 * mub));
  return r;
}
template <typename A>
inline Q6 exact(const T6<A>& t) {
  Q6 q;
  for (int i = 0; i < 6; ++i) q[i] = static_cast<f128>(t[i]);
  return q;
}

// Delta of this monitor: the first-order change of the binary128 reference when *every* input is moved by one ulp of A in
// its worst direction, i.e. the sum over the inputs of the one-at-a-time changes that cond.hpp's sensitivity() takes the
// maximum of.  Reason: both formulas spread one ill-conditioned sum (the trace) over three inputs and round 5 to 9 times;
// measured on the unchanged tree, a correct evaluation of sigma/(2 mu) - mu_b tr(sigma)/(2 mu (2 mu + 3 mu_b)) with
// mu_b >> mu reaches 5.6 x (ulp + max-Delta) although every step is a correctly rounded IEEE operation, because the
// three diagonal slots contribute 2/3, 1/3 and 1/3 of the same cancellation.  With the sum the bound is the textbook
// forward bound of an algorithm whose backward error is K ulps in each input.
template <typename T, typename F>
inline f128 sensitivity_sum(F&& ref_fn, const std::vector<T>& inputs) {
  std::vector<f128> x(inputs.size());
  for (size_t i = 0; i < inputs.size(); ++i) x[i] = static_cast<f128>(inputs[i]);
  const f128 r0 = ref_fn(x);
  f128 total = 0;
  for (size_t i = 0; i < inputs.size(); ++i) {
    const f128 keep = x[i];
    f128 d = 0;
    for (int s = 0; s < 2; ++s) {
      x[i] = static_cast<f128>(s ? next_up(inputs[i]) : next_down(inputs[i]));
      const f128 c = fabsq(ref_fn(x) - r0);
      if (c == c && c > d) d = c;
    }
    x[i] = keep;
    total += d;
  }
  return total;
}

// reference and (ulp + Delta) per slot of one map applied to the tensor t
struct Judged {
  Q6 ref, unit;
  f128 bound(int i) const { return static_cast<f128>(K) * unit[i]; }
};
template <typename A>
Judged reference(bool inverse, f128 mu, f128 mub, const T6<A>& t) {
  Judged j;
  const Q6 q = exact(t);
  // the inputs as the overload sees them (viscosities cast to A); Delta only needs differences
  std::vector<A> in(8);
  in[0] = static_cast<A>(mu);
  in[1] = static_cast<A>(mub);
  for (int k = 0; k < 6; ++k) in[2 + k] = t[k];
  for (int i = 0; i < 6; ++i) {
    j.ref[i] = inverse ? g_slot(mu, mub, q.data(), i) : f_slot(mu, mub, q.data(), i);
    const f128 delta = sensitivity_sum<A>(
        [&](const std::vector<f128>& x) {
          return inverse ? g_slot(x[0], x[1], x.data() + 2, i) : f_slot(x[0], x[1], x.data() + 2, i);
        },
        in);
    // one ulp of A at the magnitude of the larger of the two terms of the formula (they cancel when mu_b >> mu), as C01
    // does for its affine expression: the products 2 mu D_i, mu_b tr(D) (sigma_i / 2 mu, c tr(sigma)) are each rounded at
    // that magnitude before they are added
    const f128 t1 = inverse ? q[i] / (2 * mu) : 2 * mu * q[i];
    const f128 t2 = j.ref[i] - t1;
    f128 scale = fabsq(j.ref[i]);
    if (fabsq(t1) > scale) scale = fabsq(t1);
    if (fabsq(t2) > scale) scale = fabsq(t2);
    j.unit[i] = ulp_at<A>(scale) + delta;
  }
  return j;
}

// ---------------------------------------------------------------------------------------------------------------------
// inputs
// ---------------------------------------------------------------------------------------------------------------------
const char* const kTensorClass[] = {"random-symmetric", "wide-spread", "pure-shear-offdiagonal", "pure-shear-diagonal",
                                    "pure-dilatation", "trace-free", "single-slot", "small-integers", "zero"};
constexpr int kTensorClasses = 9;
const char* const kBulkClass[] = {"two-arg-zero", "one-arg-constructor", "comparable", "independent", "bulk<<shear", "bulk>>shear"};
constexpr int kBulkClasses = 6;

// safe exponent half-width of the viscosities, of the centre of a tensor, and of the power-of-two rescaling
template <typename X> struct Range;
template <> struct Range<float> { static constexpr int mu = 13, t = 10, k2 = 8; };
template <> struct Range<double> { static constexpr int mu = 100, t = 100, k2 = 40; };
template <> struct Range<long double> { static constexpr int mu = 1000, t = 1000, k2 = 200; };
struct Rg { int mu, t, k2; };
template <typename X> Rg rg() { return {Range<X>::mu, Range<X>::t, Range<X>::k2}; }

// X: the type whose mantissa the values carry (float for the all-types cases, else the argument type)
template <typename X>
T6<X> gen_tensor(Rng& r, int cls, int E) {
  T6<X> t{};
  const int e = r.range(-E, E);
  auto v = [&] { return r.logu<X>(e - 4, e + 4, true); };
  switch (cls) {
    case 0: for (auto& s : t) s = v(); break;
    case 1: for (auto& s : t) s = r.logu<X>(-E - 4, E + 4, true); break;
    case 2: t[1] = v(); t[2] = v(); t[4] = v(); break;
    case 3: t[0] = v(); t[3] = -t[0]; break;
    case 4: t[0] = t[3] = t[5] = v(); break;
    case 5: for (auto& s : t) s = v(); t[5] = -(t[0] + t[3]); break;  // trace = rounding residual of the sum
    case 6: t[r.below(6)] = v(); break;
    case 7: for (auto& s : t) s = std::ldexp(static_cast<X>(r.range(-9, 9)), e); break;
    default: break;
  }
  return t;
}
template <typename X>
X gen_mu(Rng& r, int E) {
  switch (r.below(8)) {
    case 0: return std::ldexp(static_cast<X>(1), r.range(-E, E));
    case 1: return static_cast<X>(r.range(1, 1000));
    default: return r.logu<X>(-E, E, false);
  }
}
template <typename X>
X gen_mub(Rng& r, int cls, X mu, int E) {
  int e;
  std::frexp(mu, &e);
  auto clampe = [&](int x) { return x < -E ? -E : (x > E ? E : x); };
  switch (cls) {
    case 0: case 1: return static_cast<X>(0);
    case 2: return r.logu<X>(clampe(e - 4), clampe(e + 2), false);
    case 3: return r.logu<X>(-E, E, false);
    case 4: return r.logu<X>(-E, clampe(e - 12), false);
    default: return r.logu<X>(clampe(e + 10), E, false);
  }
}

// ---------------------------------------------------------------------------------------------------------------------
// calls through the abstract interface: never inlined, so the call really goes through the vtable
// ---------------------------------------------------------------------------------------------------------------------
template <typename A>
__attribute__((noinline)) PhQ::Stress<A> v_stress_rate(const PhQ::ConstitutiveModel& m, const PhQ::StrainRate<A>& d) {
  return m.Stress(d);
}
template <typename A>
__attribute__((noinline)) PhQ::Stress<A> v_stress_strain(const PhQ::ConstitutiveModel& m, const PhQ::Strain<A>& e) {
  return m.Stress(e);
}
template <typename A>
__attribute__((noinline)) PhQ::Stress<A> v_stress_both(const PhQ::ConstitutiveModel& m, const PhQ::Strain<A>& e,
                                                       const PhQ::StrainRate<A>& d) {
  return m.Stress(e, d);
}
template <typename A>
__attribute__((noinline)) PhQ::StrainRate<A> v_rate(const PhQ::ConstitutiveModel& m, const PhQ::Stress<A>& s) {
  return m.StrainRate(s);
}
template <typename A>
__attribute__((noinline)) PhQ::Strain<A> v_strain(const PhQ::ConstitutiveModel& m, const PhQ::Stress<A>& s) {
  return m.Strain(s);
}
__attribute__((noinline)) PhQ::ConstitutiveModel::Type v_type(const PhQ::ConstitutiveModel& m) { return m.GetType(); }

// ---------------------------------------------------------------------------------------------------------------------
// one (class, model type, argument type) instance of one case
// ---------------------------------------------------------------------------------------------------------------------
template <typename C, typename M, typename A>
struct Inst {
  Reporter& R;
  uint64_t seed, ci;
  M mu, mub;
  int bulk_cls;
  const typename C::template Model<M>& model;
  std::string mlabel, tag;  // "Compressible<float>", counters suffix

  std::string key(const std::string& fn) const { return "C13|model=" + mlabel + "|" + fn + "|arg=" + Num<A>::name; }
  J base(const std::string& fn) const {
    J j;
    j.s("function", fn).s("model", mlabel).s("argument_type", Num<A>::name).i("seed", static_cast<long long>(seed))
        .i("case", static_cast<long long>(ci)).num("dynamic_viscosity", mu);
    if (C::bulk) j.num("bulk_dynamic_viscosity", mub).s("bulk_class", kBulkClass[bulk_cls]);
    return j;
  }
  void obs(const std::string& fn, const char* path) { R.count("obs|" + tag + "|" + fn + "|" + path); }
  f128 qmu() const { return static_cast<f128>(mu); }
  f128 qmub() const { return C::bulk ? static_cast<f128>(mub) : static_cast<f128>(0); }

  // got vs ref within K (ulp + Delta), per slot
  void judge(const std::string& fn, const char* icls, const T6<A>& in, const T6<A>& got, const Judged& j) {
    for (int i = 0; i < 6; ++i) {
      R.eval();
      const double err = cond_error<A>(got[i], j.ref[i], j.unit[i] - ulp_at<A>(j.ref[i]));
      const double raw = ulps<A>(got[i], j.ref[i]);
      R.maxi("max_err|" + tag + "|" + fn, err);
      R.maxi("max_plain_ulps|" + tag + "|" + fn, raw);
      if (!(err <= K)) {
        R.violation(key(fn) + "|slot=" + std::to_string(i),
                    base(fn).s("input_class", icls).i("slot", i).raw("input", jarr(in)).raw("got", jarr(got))
                        .q("exact", j.ref[i]).q("ulp_plus_delta", j.unit[i]).d("error_in_units_of_ulp_plus_delta", err)
                        .d("error_plain_ulps", raw).d("K", K).str());
      } else if (err > 0.75 && R.want_sample()) {
        R.sample(base(fn).s("input_class", icls).i("slot", i).raw("input", jarr(in)).raw("got", jarr(got))
                     .q("exact", j.ref[i]).d("error_in_units_of_ulp_plus_delta", err).d("error_plain_ulps", raw).str());
      }
    }
    R.nontrivial(tag + "|" + fn + "|" + icls + "|" + kBulkClass[bulk_cls]);
  }

  // |got - want| <= bound (a sum of step bounds), reported in units of bound / K
  void judge_composite(const std::string& fn, const char* icls, const T6<A>& in, const T6<A>& got, const Q6& want,
                       const Q6& bound) {
    for (int i = 0; i < 6; ++i) {
      R.eval();
      double err;
      const f128 g = static_cast<f128>(got[i]);
      if (got[i] != got[i] || std::isinf(static_cast<long double>(got[i]))) {
        err = std::numeric_limits<double>::infinity();
      } else {
        const f128 d = fabsq(g - want[i]);
        err = d == 0 ? 0.0 : static_cast<double>(static_cast<f128>(K) * d / bound[i]);
      }
      R.maxi("max_err|" + tag + "|" + fn, err);
      R.maxi("max_plain_ulps|" + tag + "|" + fn, ulps<A>(got[i], want[i]));
      if (!(err <= K)) {
        R.violation(key(fn) + "|slot=" + std::to_string(i),
                    base(fn).s("input_class", icls).i("slot", i).raw("input", jarr(in)).raw("got", jarr(got))
                        .q("want", want[i]).q("bound", bound[i]).d("error_in_units_of_bound_over_K", err).d("K", K).str());
      }
    }
    R.nontrivial(tag + "|" + fn + "|" + icls + "|" + kBulkClass[bulk_cls]);
  }

  void same(const std::string& fn, const char* what, const T6<A>& a, const T6<A>& b, const T6<A>& in) {
    for (int i = 0; i < 6; ++i) {
      R.eval();
      if (!same_value_bits(a[i], b[i])) {
        R.violation(key(fn) + "|" + what + "|slot=" + std::to_string(i),
                    base(fn).i("slot", i).raw("input", jarr(in)).raw("first", jarr(a)).raw("second", jarr(b)).str());
      }
    }
  }
  void zero(const std::string& fn, const char* path, const T6<A>& got, const T6<A>& in) {
    for (int i = 0; i < 6; ++i) {
      R.eval();
      if (!(got[i] == 0)) {
        R.violation(key(fn) + "|slot=" + std::to_string(i),
                    base(fn).s("path", path).i("slot", i).raw("input", jarr(in)).raw("got", jarr(got)).str());
      } else if (std::signbit(got[i])) {
        R.count("negative_zero_results");
      }
    }
  }

  // the five member functions, direct and virtual, results compared bit for bit
  T6<A> stress(const T6<A>& d) {
    const auto q = from_si<PhQ::StrainRate<A>>(d);
    const T6<A> a = to_si(model.Stress(q));
    const T6<A> b = to_si(v_stress_rate<A>(model, q));
    obs("Stress(strain_rate)", "direct");
    obs("Stress(strain_rate)", "virtual");
    same("Stress(strain_rate)", "virtual!=direct", a, b, d);
    return a;
  }
  T6<A> rate(const T6<A>& s) {
    const auto q = from_si<PhQ::Stress<A>>(s);
    const T6<A> a = to_si(model.StrainRate(q));
    const T6<A> b = to_si(v_rate<A>(model, q));
    obs("StrainRate(stress)", "direct");
    obs("StrainRate(stress)", "virtual");
    same("StrainRate(stress)", "virtual!=direct", a, b, s);
    return a;
  }
  void stress_of_strain(const T6<A>& e) {
    const auto q = from_si<PhQ::Strain<A>>(e);
    zero("Stress(strain)", "direct", to_si(model.Stress(q)), e);
    zero("Stress(strain)", "virtual", to_si(v_stress_strain<A>(model, q)), e);
    obs("Stress(strain)", "direct");
    obs("Stress(strain)", "virtual");
  }
  void strain_of_stress(const T6<A>& s) {
    const auto q = from_si<PhQ::Stress<A>>(s);
    zero("Strain(stress)", "direct", to_si(model.Strain(q)), s);
    zero("Strain(stress)", "virtual", to_si(v_strain<A>(model, q)), s);
    obs("Strain(stress)", "direct");
    obs("Strain(stress)", "virtual");
  }
  void stress_both(const T6<A>& e, const T6<A>& d, const T6<A>& s) {
    const auto qe = from_si<PhQ::Strain<A>>(e);
    const auto qd = from_si<PhQ::StrainRate<A>>(d);
    same("Stress(strain,strain_rate)", "differs-from-Stress(strain_rate)", to_si(model.Stress(qe, qd)), s, d);
    same("Stress(strain,strain_rate)", "virtual-differs-from-Stress(strain_rate)", to_si(v_stress_both<A>(model, qe, qd)), s, d);
    obs("Stress(strain,strain_rate)", "direct");
    obs("Stress(strain,strain_rate)", "virtual");
  }

  // bound of map `inverse` applied to an error tensor whose slots are bounded by e
  Q6 push(bool inverse, const Q6& e) const {
    const f128 m = qmu(), b = qmub();
    const f128 a = inverse ? 1 / (2 * m) : 2 * m;
    const f128 c = inverse ? b / (2 * m * (2 * m + 3 * b)) : b;
    Q6 o;
    for (int i = 0; i < 6; ++i) o[i] = a * e[i] + (kDiag[i] ? c * (e[0] + e[3] + e[5]) : static_cast<f128>(0));
    return o;
  }
  static Q6 bounds(const Judged& j) {
    Q6 b;
    for (int i = 0; i < 6; ++i) b[i] = j.bound(i);
    return b;
  }

  // f(alpha t1 + t2) vs alpha f(t1) + f(t2), and exact homogeneity for a power of two
  void linearity(bool inverse, Rng& r, const char* icls, const T6<A>& t1, const T6<A>& y1, const Judged& j1, const T6<A>& t2,
                 int k2max, bool all_float) {
    const std::string fn = inverse ? "StrainRate(stress)" : "Stress(strain_rate)";
    auto call = [&](const T6<A>& t) { return inverse ? rate(t) : stress(t); };
    const T6<A> y2 = call(t2);
    const Judged j2 = reference<A>(inverse, qmu(), qmub(), t2);
    judge(fn, "second-operand", t2, y2, j2);
    const float alpha = r.logu<float>(-3, 3, true);
    T6<A> t3;
    Q6 resid;
    for (int i = 0; i < 6; ++i) {
      const A p = static_cast<A>(alpha) * t1[i];
      t3[i] = p + t2[i];
      resid[i] = static_cast<f128>(t3[i]) - (static_cast<f128>(alpha) * static_cast<f128>(t1[i]) + static_cast<f128>(t2[i]));
    }
    (void)all_float;
    const T6<A> y3 = call(t3);
    const Judged j3 = reference<A>(inverse, qmu(), qmub(), t3);
    judge(fn, "linear-combination", t3, y3, j3);
    Q6 want, bound;
    const f128 aa = fabsq(static_cast<f128>(alpha));
    for (int i = 0; i < 6; ++i) {
      const f128 fr = inverse ? g_slot(qmu(), qmub(), resid.data(), i) : f_slot(qmu(), qmub(), resid.data(), i);
      want[i] = static_cast<f128>(alpha) * static_cast<f128>(y1[i]) + static_cast<f128>(y2[i]) + fr;
      bound[i] = j3.bound(i) + aa * j1.bound(i) + j2.bound(i);
    }
    judge_composite("linearity:" + fn, icls, t3, y3, want, bound);
    obs("linearity:" + fn, "direct");
    // power of two: every operation of the formula scales exactly (ranges keep every intermediate normal)
    int k = r.range(1, k2max);
    if (r.coin()) k = -k;
    T6<A> th;
    for (int i = 0; i < 6; ++i) th[i] = std::ldexp(t1[i], k);
    const T6<A> yh = call(th);
    bool safe = true;
    const A tiny = std::ldexp(static_cast<A>(1), Num<A>::emin + 2 * Num<A>::p);
    for (int i = 0; i < 6; ++i) {
      if ((y1[i] != 0 && std::fabs(y1[i]) < tiny) || (yh[i] != 0 && std::fabs(yh[i]) < tiny)) safe = false;
    }
    if (!safe) {
      R.count("homogeneity_skipped_near_subnormal");
      return;
    }
    T6<A> scaled;
    for (int i = 0; i < 6; ++i) scaled[i] = std::ldexp(y1[i], k);
    for (int i = 0; i < 6; ++i) {
      R.eval();
      if (!same_value_bits(yh[i], scaled[i])) {
        R.violation(key("homogeneity:" + fn) + "|slot=" + std::to_string(i),
                    base("homogeneity:" + fn).s("input_class", icls).i("slot", i).i("power_of_two", k).raw("input", jarr(t1))
                        .raw("f_of_input", jarr(y1)).raw("f_of_scaled_input", jarr(yh)).str());
      }
    }
    obs("homogeneity:" + fn, "direct");
    R.nontrivial(tag + "|homogeneity:" + fn + "|" + icls);
  }
};

// Run one (C, M, A) instance.  X = the type whose mantissas the inputs carry.
template <typename C, typename M, typename A, typename X>
void run_instance(Reporter& R, const Args& A_, uint64_t ci, Rng& r, Rg range, Cross* cross) {
  const std::string mlabel = std::string(C::name) + "<" + Num<M>::name + ">";
  const std::string tag = std::string(C::name) + "|M=" + Num<M>::name + "|A=" + Num<A>::name;
  // ---- model
  const M mu = static_cast<M>(gen_mu<std::conditional_t<std::is_same_v<X, float>, float, M>>(r, range.mu));
  const int bcls = static_cast<int>(r.below(kBulkClasses));
  const M mub = C::bulk ? static_cast<M>(gen_mub<std::conditional_t<std::is_same_v<X, float>, float, M>>(
                              r, bcls, static_cast<std::conditional_t<std::is_same_v<X, float>, float, M>>(mu), range.mu))
                        : static_cast<M>(0);
  const PhQ::DynamicViscosity<M> qmu(mu, PhQ::Unit::DynamicViscosity::PascalSecond);
  using Model = typename C::template Model<M>;
  std::unique_ptr<Model> pm;
  if constexpr (C::bulk) {
    if (bcls == 1) {
      pm = std::make_unique<Model>(qmu);
    } else {
      pm = std::make_unique<Model>(qmu, PhQ::BulkDynamicViscosity<M>(mub, PhQ::Unit::DynamicViscosity::PascalSecond));
    }
  } else {
    pm = std::make_unique<Model>(qmu);
  }
  const Model& model = *pm;
  Inst<C, M, A> I{R, A_.seed, ci, mu, mub, C::bulk ? bcls : 0, model, mlabel, tag};

  // ---- accessors and type
  R.eval(2);
  if (!same_bits(model.DynamicViscosity().Value(), mu) || !(model.DynamicViscosity() == qmu)) {
    R.violation("C13|model=" + mlabel + "|DynamicViscosity()", I.base("DynamicViscosity()").num("got", model.DynamicViscosity().Value()).str());
  }
  R.count("obs|" + std::string(C::name) + "|M=" + Num<M>::name + "|DynamicViscosity()");
  if constexpr (C::bulk) {
    const M got = model.BulkDynamicViscosity().Value();
    R.eval();
    if (bcls == 1) {
      if (!(got == 0)) {
        R.violation("C13|model=" + mlabel + "|constructor(dynamic_viscosity)|BulkDynamicViscosity()",
                    I.base("BulkDynamicViscosity() after the one-argument constructor").num("got", got).str());
      } else if (std::signbit(got)) {
        R.count("negative_zero_bulk_viscosity");
      }
      R.count("obs|" + std::string(C::name) + "|M=" + Num<M>::name + "|constructor(dynamic_viscosity)");
    } else {
      if (!same_bits(got, mub)) {
        R.violation("C13|model=" + mlabel + "|BulkDynamicViscosity()", I.base("BulkDynamicViscosity()").num("got", got).str());
      }
      R.count("obs|" + std::string(C::name) + "|M=" + Num<M>::name + "|BulkDynamicViscosity()");
    }
  }
  if (model.GetType() != C::type || v_type(model) != C::type) {
    R.violation("C13|model=" + mlabel + "|GetType()",
                I.base("GetType()").i("direct", static_cast<int>(model.GetType())).i("virtual", static_cast<int>(v_type(model))).str());
  }
  R.count("obs|" + std::string(C::name) + "|M=" + Num<M>::name + "|GetType()");

  // ---- tensors (mantissas of X, stored as A)
  auto tensor = [&](int cls) {
    const T6<X> t = gen_tensor<X>(r, cls, range.t);
    T6<A> o;
    for (int i = 0; i < 6; ++i) o[i] = static_cast<A>(t[i]);
    return o;
  };
  const int c1 = static_cast<int>(r.below(kTensorClasses)), c2 = static_cast<int>(r.below(kTensorClasses - 1)),
            c3 = static_cast<int>(r.below(kTensorClasses)), c4 = static_cast<int>(r.below(kTensorClasses - 1));
  const T6<A> D = tensor(c1), D2 = tensor(c2), SG = tensor(c3), SG2 = tensor(c4), EPS = tensor(static_cast<int>(r.below(kTensorClasses)));
  const f128 m = I.qmu(), b = I.qmub();

  // (1) Stress(D) against 2 mu D + mu_b tr(D) I
  const T6<A> S = I.stress(D);
  const Judged jS = reference<A>(false, m, b, D);
  I.judge("Stress(strain_rate)", kTensorClass[c1], D, S, jS);

  // (2) StrainRate(Stress(D)): against the reference inverse of the value it received, and against D
  const T6<A> G = I.rate(S);
  const Judged jG = reference<A>(true, m, b, S);
  I.judge("StrainRate(stress)", "image-of-Stress", S, G, jG);
  {
    const Q6 amp = I.push(true, Inst<C, M, A>::bounds(jS));
    Q6 bound;
    for (int i = 0; i < 6; ++i) bound[i] = jG.bound(i) + amp[i];
    I.judge_composite("StrainRate(Stress(strain_rate))", kTensorClass[c1], D, G, exact(D), bound);
    I.obs("StrainRate(Stress(strain_rate))", "direct");
  }

  // (3) StrainRate(sigma) against the reference inverse; Stress(StrainRate(sigma)) against sigma
  const T6<A> G2 = I.rate(SG);
  const Judged jG2 = reference<A>(true, m, b, SG);
  I.judge("StrainRate(stress)", kTensorClass[c3], SG, G2, jG2);
  const T6<A> S2 = I.stress(G2);
  const Judged jS2 = reference<A>(false, m, b, G2);
  I.judge("Stress(strain_rate)", "image-of-StrainRate", G2, S2, jS2);
  {
    const Q6 amp = I.push(false, Inst<C, M, A>::bounds(jG2));
    Q6 bound;
    for (int i = 0; i < 6; ++i) bound[i] = jS2.bound(i) + amp[i];
    I.judge_composite("Stress(StrainRate(stress))", kTensorClass[c3], SG, S2, exact(SG), bound);
    I.obs("Stress(StrainRate(stress))", "direct");
  }

  // (4) strain arguments are ignored
  I.stress_of_strain(EPS);
  I.stress_of_strain(D);
  I.strain_of_stress(SG);
  I.strain_of_stress(S);
  I.stress_both(EPS, D, S);

  // (5) both maps are linear
  I.linearity(false, r, kTensorClass[c1], D, S, jS, D2, range.k2, std::is_same_v<X, float>);
  I.linearity(true, r, kTensorClass[c3], SG, G2, jG2, SG2, range.k2, std::is_same_v<X, float>);

  if (cross) {
    cross->have[C::idx][Num<A>::idx] = true;
    for (int i = 0; i < 6; ++i) {
      cross->S[C::idx][Num<A>::idx][i] = S[i];
      cross->G[C::idx][Num<A>::idx][i] = G2[i];
      cross->BS[C::idx][Num<A>::idx][i] = static_cast<long double>(jS.bound(i)) * (1 + 0x1p-40L);
      cross->BG[C::idx][Num<A>::idx][i] = static_cast<long double>(jG2.bound(i)) * (1 + 0x1p-40L);
    }
  }
}

template <typename X, typename Y>
using narrower_t = std::conditional_t<(Num<X>::idx < Num<Y>::idx), X, Y>;

template <typename C, typename M, typename A>
void run_cma(Reporter& R, const Args& A_, uint64_t ci, Cross& cross) {
  const std::string key = std::string("C13|model=") + C::name + "<" + Num<M>::name + ">|arg=" + Num<A>::name;
  R.crumb(key, "case " + std::to_string(ci) + " seed " + std::to_string(A_.seed));
  guarded(R, key, [&] {
    if (fexact_case(ci)) {
      // identical float-valued inputs for every model type and every overload
      Rng r(stream_of(A_.seed, ci, 0xC13 + C::idx));
      run_instance<C, M, A, float>(R, A_, ci, r, rg<float>(), &cross);
      R.count(std::string("cases_all_types_float_valued|") + C::name);
    } else {
      Rng r(stream_of(A_.seed, ci, 1000 + (Num<M>::idx * 3 + Num<A>::idx) * 2 + C::idx));
      const Rg range = wide_case(ci) ? rg<narrower_t<M, A>>() : rg<float>();
      run_instance<C, M, A, A>(R, A_, ci, r, range, nullptr);
      R.count(std::string(wide_case(ci) ? "cases_wide_range|" : "cases_common_range|") + C::name);
    }
  });
}

// cross precision: the overloads of one model, same float-valued inputs, agree to the coarser of the two types
template <typename C, typename M>
void cross_precision(Reporter& R, const Args& A_, uint64_t ci, const Cross& x) {
  static const char* an[3] = {"float", "double", "long double"};
  const std::string mlabel = std::string(C::name) + "<" + Num<M>::name + ">";
  for (int a = 0; a < 3; ++a) {
    for (int b2 = a + 1; b2 < 3; ++b2) {
      if (!x.have[C::idx][a] || !x.have[C::idx][b2]) continue;
      for (int which = 0; which < 2; ++which) {
        const auto& Y = which ? x.G : x.S;
        const auto& B = which ? x.BG : x.BS;
        const char* fn = which ? "StrainRate(stress)" : "Stress(strain_rate)";
        for (int i = 0; i < 6; ++i) {
          R.eval();
          const long double d = std::fabs(Y[C::idx][a][i] - Y[C::idx][b2][i]);
          const long double bound = B[C::idx][a][i] + B[C::idx][b2][i];
          const double err = d == 0 ? 0.0 : static_cast<double>(K * d / bound);
          R.maxi(std::string("max_err|") + C::name + "|M=" + Num<M>::name + "|cross-precision:" + fn, err);
          if (!(err <= K)) {
            R.violation("C13|model=" + mlabel + "|cross-precision:" + fn + "|args=" + an[a] + "," + an[b2] + "|slot=" + std::to_string(i),
                        J().i("seed", static_cast<long long>(A_.seed)).i("case", static_cast<long long>(ci)).i("slot", i)
                            .num("first", Y[C::idx][a][i]).num("second", Y[C::idx][b2][i]).num("bound", bound).str());
          }
        }
        R.count(std::string("obs|") + C::name + "|M=" + Num<M>::name + "|cross-precision:" + fn + "|" + an[a] + "," + an[b2]);
      }
    }
  }
}

}  // namespace

void C13_THIS_PART(Reporter& R, const Args& A_, uint64_t ci, Cross& cross) {
  run_cma<Inc, MT, float>(R, A_, ci, cross);
  run_cma<Inc, MT, double>(R, A_, ci, cross);
  run_cma<Inc, MT, long double>(R, A_, ci, cross);
  run_cma<Com, MT, float>(R, A_, ci, cross);
  run_cma<Com, MT, double>(R, A_, ci, cross);
  run_cma<Com, MT, long double>(R, A_, ci, cross);
  if (fexact_case(ci)) {
    cross_precision<Inc, MT>(R, A_, ci, cross);
    cross_precision<Com, MT>(R, A_, ci, cross);
  }
}

#if VERIF_PART == 0
// the same material held in float, double and long double: same overload, same float-valued inputs
static void cross_model_type(Reporter& R, const Args& A_, uint64_t ci, const Cross (&x)[3]) {
  static const char* tn[3] = {"float", "double", "long double"};
  static const char* cn[2] = {"Incompressible", "Compressible"};
  for (int c = 0; c < 2; ++c) {
    for (int a = 0; a < 3; ++a) {
      for (int m1 = 0; m1 < 3; ++m1) {
        for (int m2 = m1 + 1; m2 < 3; ++m2) {
          if (!x[m1].have[c][a] || !x[m2].have[c][a]) continue;
          for (int which = 0; which < 2; ++which) {
            const char* fn = which ? "StrainRate(stress)" : "Stress(strain_rate)";
            bool identical = true;
            for (int i = 0; i < 6; ++i) {
              const long double y1 = which ? x[m1].G[c][a][i] : x[m1].S[c][a][i];
              const long double y2 = which ? x[m2].G[c][a][i] : x[m2].S[c][a][i];
              const long double bound = (which ? x[m1].BG[c][a][i] : x[m1].BS[c][a][i]) + (which ? x[m2].BG[c][a][i] : x[m2].BS[c][a][i]);
              R.eval();
              if (!same_value_bits(y1, y2)) identical = false;
              const long double d = std::fabs(y1 - y2);
              if (!(d <= bound)) {
                R.violation(std::string("C13|model=") + cn[c] + "|cross-model-type:" + fn + "|arg=" + tn[a] + "|types=" + tn[m1] + "," + tn[m2] +
                                "|slot=" + std::to_string(i),
                            J().i("seed", static_cast<long long>(A_.seed)).i("case", static_cast<long long>(ci)).i("slot", i)
                                .num("first", y1).num("second", y2).num("bound", bound).str());
              }
            }
            R.count(std::string("cross_model_type_compared|") + cn[c] + "|" + fn + "|arg=" + tn[a]);
            if (identical) R.count(std::string("cross_model_type_bit_identical|") + cn[c] + "|" + fn + "|arg=" + tn[a]);
          }
        }
      }
    }
  }
}

int main(int argc, char** argv) {
  Args A_ = parse_args(argc, argv);
  Reporter R(A_.out);
  const uint64_t N = static_cast<uint64_t>(A_.n("cases", A_.thorough() ? 80000 : 1500));
  for (uint64_t ci = 0; ci < N; ++ci) {
    if (!A_.mine(ci)) continue;
    Cross x[3];
    c13_part_0(R, A_, ci, x[0]);
    c13_part_1(R, A_, ci, x[1]);
    c13_part_2(R, A_, ci, x[2]);
    if (fexact_case(ci)) cross_model_type(R, A_, ci, x);
    R.count("cases");
  }
  return R.finish();
}
#endif
