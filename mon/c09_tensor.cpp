// C09: PlanarVector, Vector, SymmetricDyad and Dyad implement 3-D Cartesian tensor algebra.
// Events: (operation, operand shapes, numeric type, inputs, every output slot of the library's result).
// Oracle: an index-loop reference algebra over 3-vectors and 3x3 matrices (namespace rf below): Levi-Civita cross
// product, Laplace determinant, cofactors by minors, adjugate = transposed cofactors; int64_t for integer-valued
// workloads (results must be exactly equal), binary128 for real ones (bound 4*(ulp + Delta), Delta = largest change of
// the reference when one input moves by one ulp).  Planar and symmetric shapes are embedded.
// Nothing of the library is used to compute an expected value.
#include "common/cond.hpp"
#include "common/parts.hpp"
#include "common/traits.hpp"

#include <optional>
#include <tuple>

using namespace verif;

// ------------------------------------------------------------------------------------------------
// reference algebra
// ------------------------------------------------------------------------------------------------
namespace rf {
template <class S> struct V3 { S a[3]; };
template <class S> struct M3 { S a[3][3]; };

inline int levi(int i, int j, int k) { return (i - j) * (j - k) * (k - i) / 2; }

template <class S> S dot(const V3<S>& a, const V3<S>& b) {
  S s = 0;
  for (int i = 0; i < 3; ++i) s += a.a[i] * b.a[i];
  return s;
}
template <class S> V3<S> cross(const V3<S>& a, const V3<S>& b) {
  V3<S> r;
  for (int i = 0; i < 3; ++i) {
    S s = 0;
    for (int j = 0; j < 3; ++j)
      for (int k = 0; k < 3; ++k) {
        const int e = levi(i, j, k);
        if (e) s += static_cast<S>(e) * a.a[j] * b.a[k];
      }
    r.a[i] = s;
  }
  return r;
}
template <class S> M3<S> dyadic(const V3<S>& a, const V3<S>& b) {
  M3<S> r;
  for (int i = 0; i < 3; ++i)
    for (int j = 0; j < 3; ++j) r.a[i][j] = a.a[i] * b.a[j];
  return r;
}
template <class S> M3<S> mm(const M3<S>& a, const M3<S>& b) {
  M3<S> r;
  for (int i = 0; i < 3; ++i)
    for (int j = 0; j < 3; ++j) {
      S s = 0;
      for (int k = 0; k < 3; ++k) s += a.a[i][k] * b.a[k][j];
      r.a[i][j] = s;
    }
  return r;
}
template <class S> V3<S> mv(const M3<S>& a, const V3<S>& v) {
  V3<S> r;
  for (int i = 0; i < 3; ++i) {
    S s = 0;
    for (int k = 0; k < 3; ++k) s += a.a[i][k] * v.a[k];
    r.a[i] = s;
  }
  return r;
}
template <class S> S trace(const M3<S>& a) {
  S s = 0;
  for (int i = 0; i < 3; ++i) s += a.a[i][i];
  return s;
}
template <class S> M3<S> transpose(const M3<S>& a) {
  M3<S> r;
  for (int i = 0; i < 3; ++i)
    for (int j = 0; j < 3; ++j) r.a[i][j] = a.a[j][i];
  return r;
}
template <class S> S minor_(const M3<S>& m, int i, int j) {
  int r[2], c[2], nr = 0, nc = 0;
  for (int k = 0; k < 3; ++k) {
    if (k != i) r[nr++] = k;
    if (k != j) c[nc++] = k;
  }
  return m.a[r[0]][c[0]] * m.a[r[1]][c[1]] - m.a[r[0]][c[1]] * m.a[r[1]][c[0]];
}
template <class S> S cof(const M3<S>& m, int i, int j) {
  const S mi = minor_(m, i, j);
  return ((i + j) & 1) ? -mi : mi;
}
template <class S> M3<S> cofactors(const M3<S>& m) {
  M3<S> r;
  for (int i = 0; i < 3; ++i)
    for (int j = 0; j < 3; ++j) r.a[i][j] = cof(m, i, j);
  return r;
}
template <class S> S det(const M3<S>& m) {
  S s = 0;
  for (int j = 0; j < 3; ++j) s += m.a[0][j] * cof(m, 0, j);
  return s;
}
template <class S> M3<S> adjugate(const M3<S>& m) { return transpose(cofactors(m)); }
template <class S> S msq(const V3<S>& a) { return dot(a, a); }

template <class S> V3<S> add(const V3<S>& a, const V3<S>& b) { V3<S> r; for (int i = 0; i < 3; ++i) r.a[i] = a.a[i] + b.a[i]; return r; }
template <class S> V3<S> sub(const V3<S>& a, const V3<S>& b) { V3<S> r; for (int i = 0; i < 3; ++i) r.a[i] = a.a[i] - b.a[i]; return r; }
template <class S> M3<S> add(const M3<S>& a, const M3<S>& b) { M3<S> r; for (int i = 0; i < 3; ++i) for (int j = 0; j < 3; ++j) r.a[i][j] = a.a[i][j] + b.a[i][j]; return r; }
template <class S> M3<S> sub(const M3<S>& a, const M3<S>& b) { M3<S> r; for (int i = 0; i < 3; ++i) for (int j = 0; j < 3; ++j) r.a[i][j] = a.a[i][j] - b.a[i][j]; return r; }
template <class S> V3<S> scale(const V3<S>& a, const S& s) { V3<S> r; for (int i = 0; i < 3; ++i) r.a[i] = a.a[i] * s; return r; }
template <class S> M3<S> scale(const M3<S>& a, const S& s) { M3<S> r; for (int i = 0; i < 3; ++i) for (int j = 0; j < 3; ++j) r.a[i][j] = a.a[i][j] * s; return r; }
// division: the integer workloads only divide multiples of the divisor (see F_DIVISIBLE)
template <class S> V3<S> divs(const V3<S>& a, const S& s) { V3<S> r; for (int i = 0; i < 3; ++i) r.a[i] = a.a[i] / s; return r; }
template <class S> M3<S> divs(const M3<S>& a, const S& s) { M3<S> r; for (int i = 0; i < 3; ++i) for (int j = 0; j < 3; ++j) r.a[i][j] = a.a[i][j] / s; return r; }
template <class S> V3<S> ident(const V3<S>& a) { return a; }
template <class S> M3<S> ident(const M3<S>& a) { return a; }
template <class S> V3<S> project_xy(const V3<S>& a) { V3<S> r = a; r.a[2] = 0; return r; }

// The same index loops over this scalar evaluate a formula with every monomial taken in absolute value: the result M is the
// sum of the magnitudes of the monomials of the textbook formula, the quantity the classical forward error bound of a
// floating-point evaluation is proportional to (|fl(p) - p| <= gamma_n * M, n = roundings on the longest monomial path).
struct AbsQ {
  f128 v;
  AbsQ() : v(0) {}
  AbsQ(int i) : v(i < 0 ? -static_cast<f128>(i) : static_cast<f128>(i)) {}
  explicit AbsQ(f128 x) : v(fabsq(x)) {}
  friend AbsQ operator+(AbsQ a, AbsQ b) { AbsQ r; r.v = a.v + b.v; return r; }
  friend AbsQ operator-(AbsQ a, AbsQ b) { AbsQ r; r.v = a.v + b.v; return r; }
  friend AbsQ operator*(AbsQ a, AbsQ b) { AbsQ r; r.v = a.v * b.v; return r; }
  friend AbsQ operator/(AbsQ a, AbsQ b) { AbsQ r; r.v = a.v / b.v; return r; }
  AbsQ operator-() const { return *this; }
  AbsQ& operator+=(AbsQ b) { v += b.v; return *this; }
  friend bool operator!=(AbsQ a, AbsQ b) { return a.v != b.v; }
};

// embeddings of the library's flat component arrays
template <class S, class T> S emb(const std::array<T, 1>& a) { return static_cast<S>(a[0]); }
template <class S, class T> V3<S> emb(const std::array<T, 2>& a) { return V3<S>{{static_cast<S>(a[0]), static_cast<S>(a[1]), static_cast<S>(0)}}; }
template <class S, class T> V3<S> emb(const std::array<T, 3>& a) { return V3<S>{{static_cast<S>(a[0]), static_cast<S>(a[1]), static_cast<S>(a[2])}}; }
template <class S, class T> M3<S> emb(const std::array<T, 6>& a) {  // xx xy xz yy yz zz
  M3<S> m;
  const S xx = static_cast<S>(a[0]), xy = static_cast<S>(a[1]), xz = static_cast<S>(a[2]), yy = static_cast<S>(a[3]),
          yz = static_cast<S>(a[4]), zz = static_cast<S>(a[5]);
  m.a[0][0] = xx; m.a[0][1] = xy; m.a[0][2] = xz;
  m.a[1][0] = xy; m.a[1][1] = yy; m.a[1][2] = yz;
  m.a[2][0] = xz; m.a[2][1] = yz; m.a[2][2] = zz;
  return m;
}
template <class S, class T> M3<S> emb(const std::array<T, 9>& a) {
  M3<S> m;
  for (int i = 0; i < 3; ++i)
    for (int j = 0; j < 3; ++j) m.a[i][j] = static_cast<S>(a[3 * i + j]);
  return m;
}
// projection of a reference result onto the N slots of the library's result type
template <size_t N, class S> std::array<S, N> flat(const S& s) {
  static_assert(N == 1, "scalar result");
  return {s};
}
template <size_t N, class S> std::array<S, N> flat(const V3<S>& v) {
  static_assert(N == 2 || N == 3, "vector result");
  std::array<S, N> r;
  for (size_t i = 0; i < N; ++i) r[i] = v.a[i];
  return r;
}
template <size_t N, class S> std::array<S, N> flat(const M3<S>& m) {
  static_assert(N == 6 || N == 9, "tensor result");
  std::array<S, N> r;
  if constexpr (N == 9) {
    for (int i = 0; i < 3; ++i)
      for (int j = 0; j < 3; ++j) r[3 * i + j] = m.a[i][j];
  } else {
    r[0] = m.a[0][0]; r[1] = m.a[0][1]; r[2] = m.a[0][2]; r[3] = m.a[1][1]; r[4] = m.a[1][2]; r[5] = m.a[2][2];
  }
  return r;
}
// what a symmetric / planar result type cannot store must vanish in the reference (harness sanity)
template <size_t N, class S> bool lost(const S&) { return false; }
template <size_t N, class S> bool lost(const V3<S>& v) { return N == 2 && v.a[2] != 0; }
template <size_t N, class S> bool lost(const M3<S>& m) {
  return N == 6 && (m.a[0][1] != m.a[1][0] || m.a[0][2] != m.a[2][0] || m.a[1][2] != m.a[2][1]);
}
}  // namespace rf

// ------------------------------------------------------------------------------------------------
// library-side helpers
// ------------------------------------------------------------------------------------------------
struct None {};

template <class X> using arr_t = decltype(to_arr(std::declval<const X&>()));
template <class X> constexpr size_t slots_of = std::tuple_size<arr_t<X>>::value;

// lift into the general type (the library's own embedding constructors)
template <class T> PhQ::Vector<T> up(const PhQ::PlanarVector<T>& v) { return PhQ::Vector<T>(v); }
template <class T> PhQ::Vector<T> up(const PhQ::Vector<T>& v) { return v; }
template <class T> PhQ::Dyad<T> up(const PhQ::SymmetricDyad<T>& v) { return PhQ::Dyad<T>(v); }
template <class T> PhQ::Dyad<T> up(const PhQ::Dyad<T>& v) { return v; }
inline float up(float v) { return v; }
inline double up(double v) { return v; }
inline long double up(long double v) { return v; }

template <class X> struct is_special : std::false_type {};
template <class T> struct is_special<PhQ::PlanarVector<T>> : std::true_type {};
template <class T> struct is_special<PhQ::SymmetricDyad<T>> : std::true_type {};

// canonical general-shape component list of a library value
template <class T> std::array<T, 3> canon(const PhQ::PlanarVector<T>& v) { return {v.x(), v.y(), static_cast<T>(0)}; }
template <class T> std::array<T, 3> canon(const PhQ::Vector<T>& v) { return {v.x(), v.y(), v.z()}; }
template <class T> std::array<T, 9> canon(const PhQ::SymmetricDyad<T>& v) {
  return {v.xx(), v.xy(), v.xz(), v.yx(), v.yy(), v.yz(), v.zx(), v.zy(), v.zz()};
}
template <class T> std::array<T, 9> canon(const PhQ::Dyad<T>& v) { return to_arr(v); }
inline std::array<float, 1> canon(float v) { return {v}; }
inline std::array<double, 1> canon(double v) { return {v}; }
inline std::array<long double, 1> canon(long double v) { return {v}; }

template <class X> struct ShapeName;
template <class T> struct ShapeName<PhQ::PlanarVector<T>> { static constexpr const char* s = "PlanarVector"; };
template <class T> struct ShapeName<PhQ::Vector<T>> { static constexpr const char* s = "Vector"; };
template <class T> struct ShapeName<PhQ::SymmetricDyad<T>> { static constexpr const char* s = "SymmetricDyad"; };
template <class T> struct ShapeName<PhQ::Dyad<T>> { static constexpr const char* s = "Dyad"; };

// ------------------------------------------------------------------------------------------------
// context, statistics, judging
// ------------------------------------------------------------------------------------------------
enum { BASIS = 0, GRID = 1, INT = 2, REAL = 3, NCLS = 4 };
static const char* const kCls[NCLS] = {"basis", "grid", "int", "real"};
enum : unsigned { F_DIVISIBLE = 1, F_NOREAL = 2, F_NONZERO_B = 4 };
// number of roundings on the longest monomial path of the library's formula (0: a copy, must be exact)
constexpr unsigned DEPTH(unsigned n) { return n << 8; }
constexpr int depth_of(unsigned flags) { return static_cast<int>((flags >> 8) & 15u); }
static const double kK = 4.0;

template <class T> struct Ctx {
  Reporter& R;
  const Args& A;
  long long n_int, n_real;
  int64_t B;  // bound on integer components: every intermediate of every formula stays exact in T
};

template <class T> constexpr int64_t int_bound() {
  return std::is_same_v<T, float> ? (1 << 6) : std::is_same_v<T, double> ? (1 << 15) : (1 << 18);
}

struct OpStat {
  std::string op, tname;
  bool expect[NCLS] = {false, false, false, false};
  long long obs[NCLS] = {0, 0, 0, 0};
  long long slots = 0;
  double max_cond = 0, max_ulps_wellcond = 0, max_over_uM = 0;
  long long fallback = 0;
  template <class T> void open(Ctx<T>& C, const std::string& o, std::initializer_list<int> classes) {
    op = o;
    tname = Num<T>::name;
    for (int c : classes) {
      expect[c] = true;
      C.R.count("obs|" + std::string(kCls[c]) + "|" + op + "|" + tname, 0);  // registered even if never observed
    }
    C.R.list("ops", op);
  }
  template <class T> void close(Ctx<T>& C) {
    for (int c = 0; c < NCLS; ++c)
      if (obs[c]) {
        C.R.count("obs|" + std::string(kCls[c]) + "|" + op + "|" + tname, obs[c]);
        C.R.nontrivial(op + "|" + tname + "|" + kCls[c]);
      }
    C.R.eval(static_cast<uint64_t>(slots));
    if (obs[REAL]) {
      C.R.maxi("max_cond|" + op + "|" + tname, max_cond);
      C.R.maxi("max_ulps_wellcond|" + op + "|" + tname, max_ulps_wellcond);
      C.R.maxi("max_err_over_uM|" + op + "|" + tname, max_over_uM);
      C.R.count("needed_forward_error_bound|" + op + "|" + tname, fallback);
    }
  }
};

template <class T> static std::string vkey(const std::string& op, size_t slot) {
  return "C09|op=" + op + "|slot=" + std::to_string(slot) + "|" + Num<T>::name;
}
template <size_t N> static std::string jints(const std::array<int64_t, N>& a) {
  std::string o = "[";
  for (size_t i = 0; i < N; ++i) o += (i ? "," : "") + std::to_string(a[i]);
  return o + "]";
}
template <size_t N> static std::string jquads(const std::array<f128, N>& a) {
  std::string o = "[";
  for (size_t i = 0; i < N; ++i) o += std::string(i ? "," : "") + "\"" + q2s(a[i]) + "\"";
  return o + "]";
}

template <class T, size_t NO, class D>
static void judge_int(Ctx<T>& C, OpStat& st, int cls, const std::array<T, NO>& got, const std::array<int64_t, NO>& want,
                      D&& detail) {
  for (size_t k = 0; k < NO; ++k) {
    const T w = static_cast<T>(want[k]);
    if (static_cast<int64_t>(w) != want[k]) C.R.count("harness_reference_not_representable");
    if (!(got[k] == w)) {
      C.R.violation(vkey<T>(st.op, k), J().s("workload", kCls[cls]).s("rule", "exactly equal on integer-valued inputs")
                                           .raw("inputs", detail()).raw("got", jarr(got)).raw("expected", jints(want)).str());
    }
  }
  st.slots += NO;
  ++st.obs[cls];
}

// Real workloads.  Accepted: |got - exact| <= 4*(ulp_T(exact) + Delta)  [the design's conditioning-aware bound], or, where the
// terms of the formula cancel among themselves so that Delta (sensitivity to the inputs) does not see the size of the
// intermediate products, the a-priori forward error bound of the textbook formula evaluated in T:
// |got - exact| <= gamma_n * M, gamma_n = n*u/(1 - n*u), u = eps_T/2, n = depth, M = sum of |monomials| (binary128).
// depth 0 means the operation copies components: the result must be exactly the input.
template <class T, size_t NO, class D>
static void judge_real(Ctx<T>& C, OpStat& st, int depth, const std::array<T, NO>& got, const std::array<f128, NO>& want,
                       const std::array<f128, NO>& delta, const std::array<f128, NO>& M, D&& detail) {
  const f128 u = static_cast<f128>(std::numeric_limits<T>::epsilon()) / 2;
  for (size_t k = 0; k < NO; ++k) {
    const double ce = cond_error<T>(got[k], want[k], delta[k]);
    const double ul = ulps<T>(got[k], want[k]);
    bool ok;
    if (depth == 0) {
      ok = static_cast<f128>(got[k]) == want[k];
    } else {
      ok = ce <= kK;
      if (ce > st.max_cond || ce != ce) st.max_cond = ce;
      if (delta[k] <= ulp_at<T>(want[k]) && ul > st.max_ulps_wellcond) st.max_ulps_wellcond = ul;
      const f128 err = fabsq(static_cast<f128>(got[k]) - want[k]);
      if (M[k] > 0 && err == err) {
        const double r = static_cast<double>(err / (u * M[k]));
        if (r > st.max_over_uM) st.max_over_uM = r;
      }
      if (!ok && got[k] == got[k]) {
        const f128 gamma = depth * u / (1 - depth * u);
        if (err <= gamma * M[k]) {
          ok = true;
          ++st.fallback;
        }
      }
    }
    if (!ok) {
      C.R.violation(vkey<T>(st.op, k), J().s("workload", "real")
                                           .s("rule", depth ? "|got-exact| <= 4*(ulp + Delta) or <= gamma_depth * sum|monomials|" : "copy must be exact")
                                           .i("depth", depth).raw("inputs", detail()).raw("got", jarr(got)).raw("exact", jquads(want))
                                           .raw("Delta", jquads(delta)).raw("sum_abs_monomials", jquads(M))
                                           .d("error_in_units_of_ulp_plus_Delta", ce).d("error_ulps", ul).str());
    } else if (ul > 0.5 && C.R.want_sample()) {
      C.R.sample(J().s("op", st.op).s("numeric_type", Num<T>::name).i("slot", static_cast<long long>(k)).raw("inputs", detail())
                     .num("got", got[k]).q("exact", want[k]).q("Delta", delta[k]).d("error_ulps", ul)
                     .d("error_in_units_of_ulp_plus_Delta", ce).str());
    }
  }
  st.slots += NO;
  ++st.obs[REAL];
}

// reference value and Delta per output slot: f maps the exact values of the inputs to all output slots
template <class T, size_t NO, class F>
static void reference_with_delta(F&& f, const std::vector<T>& in, std::array<f128, NO>& r0, std::array<f128, NO>& delta) {
  std::vector<f128> x(in.size());
  for (size_t i = 0; i < in.size(); ++i) x[i] = static_cast<f128>(in[i]);
  r0 = f(x);
  for (auto& d : delta) d = 0;
  for (size_t i = 0; i < in.size(); ++i) {
    const f128 keep = x[i];
    for (int s = 0; s < 2; ++s) {
      x[i] = static_cast<f128>(s ? next_up(in[i]) : next_down(in[i]));
      const std::array<f128, NO> r = f(x);
      for (size_t k = 0; k < NO; ++k) {
        const f128 c = fabsq(r[k] - r0[k]);
        if (c == c && c > delta[k]) delta[k] = c;
      }
    }
    x[i] = keep;
  }
}

// ------------------------------------------------------------------------------------------------
// input generation
// ------------------------------------------------------------------------------------------------
static int64_t rand_int(Rng& rng, int64_t B) { return static_cast<int64_t>(rng.below(static_cast<uint64_t>(2 * B + 1))) - B; }

template <class T, size_t N> static std::array<T, N> gen_int(Rng& rng, int cls, int64_t B) {
  std::array<T, N> a;
  int bits = 0;
  for (int64_t b = B; b > 1; b >>= 1) ++bits;
  for (size_t i = 0; i < N; ++i) {
    int64_t v;
    switch (cls) {
      case 0: v = rand_int(rng, 3); break;
      case 1: v = rand_int(rng, B); break;
      case 2: v = rand_int(rng, int64_t{1} << rng.range(0, bits)); break;
      default: v = rng.below(3) == 0 ? 0 : rand_int(rng, B); break;
    }
    a[i] = static_cast<T>(v);
  }
  return a;
}

template <class T> static T gen_real1(Rng& rng, int cls, bool nonzero) {
  const int E = std::is_same_v<T, float> ? 10 : 30;
  switch (cls) {
    case 0: return rng.coin() ? rng.template mantissa<T>() : -rng.template mantissa<T>();
    case 1: return rng.template logu<T>(-E, E, true);
    case 2: return rng.template logu<T>(-3, 3, true);
    default: {
      const uint64_t k = rng.below(6);
      if (k == 0 && !nonzero) return rng.coin() ? static_cast<T>(0) : -static_cast<T>(0);
      if (k == 1) return static_cast<T>(rng.range(1, 9)) * (rng.coin() ? 1 : -1);
      return rng.template logu<T>(-2, 2, true);
    }
  }
}
template <class T, size_t N> static std::array<T, N> gen_real(Rng& rng, int cls, bool nonzero = false) {
  std::array<T, N> a;
  for (size_t i = 0; i < N; ++i) a[i] = gen_real1<T>(rng, cls, nonzero);
  return a;
}

template <class T, size_t NA, size_t NB> static std::string jin2(const std::array<T, NA>& a, const std::array<T, NB>& b) {
  return J().raw("a", jarr(a)).raw("b", jarr(b)).str();
}
template <class T, size_t NA> static std::string jin1(const std::array<T, NA>& a) { return J().raw("a", jarr(a)).str(); }

template <class T> static Rng op_rng(const Ctx<T>& C, const std::string& op, uint64_t stream) {
  return Rng(mix(mix(C.A.seed, hash_str(op)), mix(static_cast<uint64_t>(Num<T>::idx) * 1000 + stream,
                                                  static_cast<uint64_t>(C.A.shard) * 64 + static_cast<uint64_t>(C.A.nshards))));
}
template <class T> static long long share(const Ctx<T>& C, long long n) {  // this shard's part of n cases
  return n / C.A.nshards + (C.A.shard < n % C.A.nshards ? 1 : 0);
}

// ------------------------------------------------------------------------------------------------
// generic runners
// ------------------------------------------------------------------------------------------------
// binary operation XA x XB -> anything with components; gen (optional) is the same operation through the general types
template <class T, class XA, class XB, class LibF, class RefF, class GenF>
static void run_binary(Ctx<T>& C, const std::string& op, unsigned flags, LibF lib, RefF ref, GenF gen) {
  constexpr size_t NA = slots_of<XA>, NB = slots_of<XB>;
  using AA = std::array<T, NA>;
  using AB = std::array<T, NB>;
  using Out = decltype(lib(std::declval<const XA&>(), std::declval<const XB&>()));
  constexpr size_t NO = slots_of<Out>;
  constexpr bool has_gen = !std::is_same_v<GenF, None>;
  OpStat st, se;
  if (flags & F_NOREAL) st.open(C, op, {BASIS, INT}); else st.open(C, op, {BASIS, INT, REAL});
  if constexpr (has_gen) se.open(C, "embed(" + op + ")", {BASIS, INT});
  long long real_embed_same = 0, real_embed_diff = 0;

  auto one = [&](int cls, AA a, AB b) {
    const bool integer = cls != REAL;
    if (integer && (flags & F_DIVISIBLE)) for (auto& x : a) x *= b[0];
    const XA xa = FromArr<XA>::make(a);
    const XB xb = FromArr<XB>::make(b);
    const Out out = lib(xa, xb);
    const std::array<T, NO> got = to_arr(out);
    auto detail = [&] { return jin2(a, b); };
    if (integer) {
      const auto r = ref(rf::emb<int64_t>(a), rf::emb<int64_t>(b));
      if (rf::lost<NO>(r)) C.R.count("harness_reference_outside_result_shape");
      judge_int<T, NO>(C, st, cls, got, rf::flat<NO>(r), detail);
    } else {
      std::vector<T> in(a.begin(), a.end());
      in.insert(in.end(), b.begin(), b.end());
      std::array<f128, NO> r0, delta;
      reference_with_delta<T, NO>([&](const std::vector<f128>& x) {
        std::array<f128, NA> pa;
        std::array<f128, NB> pb;
        for (size_t i = 0; i < NA; ++i) pa[i] = x[i];
        for (size_t i = 0; i < NB; ++i) pb[i] = x[NA + i];
        return rf::flat<NO>(ref(rf::emb<f128>(pa), rf::emb<f128>(pb)));
      }, in, r0, delta);
      std::array<f128, NA> qa;
      std::array<f128, NB> qb;
      for (size_t i = 0; i < NA; ++i) qa[i] = static_cast<f128>(a[i]);
      for (size_t i = 0; i < NB; ++i) qb[i] = static_cast<f128>(b[i]);
      const auto am = rf::flat<NO>(ref(rf::emb<rf::AbsQ>(qa), rf::emb<rf::AbsQ>(qb)));
      std::array<f128, NO> M;
      for (size_t k = 0; k < NO; ++k) M[k] = am[k].v;
      judge_real<T, NO>(C, st, depth_of(flags), got, r0, delta, M, detail);
    }
    if constexpr (has_gen) {
      const auto s = canon(out);
      const auto g = canon(gen(xa, xb));
      static_assert(std::tuple_size<decltype(s)>::value == std::tuple_size<decltype(g)>::value, "shapes");
      bool same = true;
      for (size_t k = 0; k < s.size(); ++k) {
        if (!(s[k] == g[k])) {
          same = false;
          if (integer)
            C.R.violation(vkey<T>(se.op, k), J().s("workload", kCls[cls]).s("rule", "specialised type == embedding in the general type")
                                                 .raw("inputs", detail()).raw("specialised", jarr(s)).raw("general", jarr(g)).str());
        }
      }
      if (integer) {
        se.slots += s.size();
        ++se.obs[cls];
      } else {
        (same ? real_embed_same : real_embed_diff)++;
      }
    }
  };

  guarded(C.R, "C09|op=" + op + "|" + Num<T>::name, [&] {
    C.R.crumb("C09|op=" + op + "|" + Num<T>::name, "basis pairs");
    static const int coef[4] = {1, -1, 2, -2};
    uint64_t idx = 0;
    for (size_t i = 0; i < NA; ++i)
      for (int ca : coef)
        for (size_t j = 0; j < NB; ++j)
          for (int cb : coef) {
            if (!C.A.mine(idx++)) continue;
            AA a{};
            AB b{};
            a[i] = static_cast<T>(ca);
            b[j] = static_cast<T>(cb);
            one(BASIS, a, b);
          }
    C.R.crumb("C09|op=" + op + "|" + Num<T>::name, "random integers");
    Rng rng = op_rng(C, op, 1);
    const long long ni = share(C, C.n_int);
    for (long long n = 0; n < ni; ++n) {
      const int cls = static_cast<int>(rng.below(4));
      AA a;
      AB b;
      if (flags & F_DIVISIBLE) {
        b[0] = static_cast<T>(static_cast<int64_t>(rng.range(1, 8)) * (rng.coin() ? 1 : -1));
        a = gen_int<T, NA>(rng, cls, C.B / 8);
      } else {
        a = gen_int<T, NA>(rng, cls, C.B);
        b = gen_int<T, NB>(rng, static_cast<int>(rng.below(4)), C.B);
      }
      one(INT, a, b);
    }
    if (!(flags & F_NOREAL)) {
      C.R.crumb("C09|op=" + op + "|" + Num<T>::name, "random reals");
      Rng rr = op_rng(C, op, 2);
      const long long nr = share(C, C.n_real);
      for (long long n = 0; n < nr; ++n) {
        const int cls = static_cast<int>(rr.below(4));
        one(REAL, gen_real<T, NA>(rr, cls), gen_real<T, NB>(rr, static_cast<int>(rr.below(4)), (flags & F_NONZERO_B) != 0));
      }
    }
  });
  st.close(C);
  if constexpr (has_gen) {
    se.close(C);
    C.R.count("embed_real_bit_identical|" + op + "|" + Num<T>::name, real_embed_same);
    C.R.count("embed_real_differs|" + op + "|" + Num<T>::name, real_embed_diff);
  }
}

// unary operation XA -> anything with components
template <class T, class XA, class LibF, class RefF, class GenF>
static void run_unary(Ctx<T>& C, const std::string& op, unsigned flags, LibF lib, RefF ref, GenF gen) {
  constexpr size_t NA = slots_of<XA>;
  using AA = std::array<T, NA>;
  using Out = std::decay_t<decltype(lib(std::declval<const XA&>()))>;
  constexpr size_t NO = slots_of<Out>;
  constexpr bool has_gen = !std::is_same_v<GenF, None>;
  OpStat st, se;
  st.open(C, op, {GRID, INT, REAL});
  if constexpr (has_gen) se.open(C, "embed(" + op + ")", {GRID, INT});
  long long real_embed_same = 0, real_embed_diff = 0;

  auto one = [&](int cls, const AA& a) {
    const bool integer = cls != REAL;
    const XA xa = FromArr<XA>::make(a);
    const Out out = lib(xa);
    const std::array<T, NO> got = to_arr(out);
    auto detail = [&] { return jin1(a); };
    if (integer) {
      const auto r = ref(rf::emb<int64_t>(a));
      if (rf::lost<NO>(r)) C.R.count("harness_reference_outside_result_shape");
      judge_int<T, NO>(C, st, cls, got, rf::flat<NO>(r), detail);
    } else {
      std::vector<T> in(a.begin(), a.end());
      std::array<f128, NO> r0, delta;
      reference_with_delta<T, NO>([&](const std::vector<f128>& x) {
        std::array<f128, NA> pa;
        for (size_t i = 0; i < NA; ++i) pa[i] = x[i];
        return rf::flat<NO>(ref(rf::emb<f128>(pa)));
      }, in, r0, delta);
      std::array<f128, NA> qa;
      for (size_t i = 0; i < NA; ++i) qa[i] = static_cast<f128>(a[i]);
      const auto am = rf::flat<NO>(ref(rf::emb<rf::AbsQ>(qa)));
      std::array<f128, NO> M;
      for (size_t k = 0; k < NO; ++k) M[k] = am[k].v;
      judge_real<T, NO>(C, st, depth_of(flags), got, r0, delta, M, detail);
    }
    if constexpr (has_gen) {
      const auto s = canon(out);
      const auto g = canon(gen(xa));
      bool same = true;
      for (size_t k = 0; k < s.size(); ++k) {
        if (!(s[k] == g[k])) {
          same = false;
          if (integer)
            C.R.violation(vkey<T>(se.op, k), J().s("workload", kCls[cls]).s("rule", "specialised type == embedding in the general type")
                                                 .raw("inputs", detail()).raw("specialised", jarr(s)).raw("general", jarr(g)).str());
        }
      }
      if (integer) {
        se.slots += s.size();
        ++se.obs[cls];
      } else {
        (same ? real_embed_same : real_embed_diff)++;
      }
    }
  };

  guarded(C.R, "C09|op=" + op + "|" + Num<T>::name, [&] {
    C.R.crumb("C09|op=" + op + "|" + Num<T>::name, "grid {-1,0,1,2}^N");
    uint64_t total = 1;
    for (size_t i = 0; i < NA; ++i) total *= 4;
    for (uint64_t g = static_cast<uint64_t>(C.A.shard); g < total; g += static_cast<uint64_t>(C.A.nshards)) {
      AA a;
      uint64_t r = g;
      for (size_t i = 0; i < NA; ++i) {
        a[i] = static_cast<T>(static_cast<int>(r & 3) - 1);
        r >>= 2;
      }
      one(GRID, a);
    }
    C.R.crumb("C09|op=" + op + "|" + Num<T>::name, "random integers");
    Rng rng = op_rng(C, op, 1);
    const long long ni = share(C, C.n_int);
    for (long long n = 0; n < ni; ++n) one(INT, gen_int<T, NA>(rng, static_cast<int>(rng.below(4)), C.B));
    C.R.crumb("C09|op=" + op + "|" + Num<T>::name, "random reals");
    Rng rr = op_rng(C, op, 2);
    const long long nr = share(C, C.n_real);
    for (long long n = 0; n < nr; ++n) one(REAL, gen_real<T, NA>(rr, static_cast<int>(rr.below(4))));
  });
  st.close(C);
  if constexpr (has_gen) {
    se.close(C);
    C.R.count("embed_real_bit_identical|" + op + "|" + Num<T>::name, real_embed_same);
    C.R.count("embed_real_differs|" + op + "|" + Num<T>::name, real_embed_diff);
  }
}

#include "c09_tensor_ops.inc"
