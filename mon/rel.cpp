// Relations between quantity types: one binary serving C03 (dimensional homogeneity under rescaling of
// the base units), C04 (operators are IEEE arithmetic on SI values; compound-assignment histories; twins;
// math overloads) and C05 (mutually inverse relations).
//
// Programs are enumerated at compile time and *registered* as type-erased thunks (arrays of numbers in,
// arrays out), so that the drivers below are ordinary functions compiled once:
//   * binary operators: detection over all 92x92 ordered pairs of quantity types (+ number variants),
//   * constructors and member functions: the harvest in relations.hpp, each confirmed by a detection idiom,
//   * inverse constructor pairs: generated in relations.hpp from the harvested signatures.
//
// Build: -DVERIF_PARTS=12; part k handles numeric type (k % 3) and block (k / 3) of 4.
#include <memory>

#include "allq.hpp"
#include "common/cond.hpp"
#include "common/parts.hpp"
#include "common/traits.hpp"

using namespace verif;

#if VERIF_PARTS != 12
#error "rel.cpp is built in exactly 12 parts"
#endif
#if (VERIF_PART % 3) == 0
using T = float;
#elif (VERIF_PART % 3) == 1
using T = double;
#else
using T = long double;
#endif
static constexpr int kBlock = VERIF_PART / 3;
static constexpr int kBlocks = 4;
static const char* TN = Num<T>::name;
static const Args* g_args;
static constexpr int kMaxN = 9;

// Everything below depends on T, which differs between the translation units of this binary: internal linkage
// (an unnamed namespace) keeps the per-type definitions of Buf, Rel, Thunk ... from colliding at link time.
namespace {

// ------------------------------------------------------------------------------------------------
// operands: a quantity type or the plain number T, seen as an array of n numbers
// ------------------------------------------------------------------------------------------------
template <typename X, typename = void> struct Op;
template <> struct Op<T> {
  static constexpr int n = 1;
  static constexpr bool is_number = true;
  static T load(const T* p) { return p[0]; }
  static void save(const T& v, T* p) { p[0] = v; }
  static std::array<int, 7> dims() { return {0, 0, 0, 0, 0, 0, 0}; }
};
template <typename Q>
struct Op<Q, std::void_t<decltype(std::declval<const Q&>().Value())>> {
  static constexpr int n = n_of<Q>;
  static constexpr bool is_number = false;
  static Q load(const T* p) {
    std::array<T, n> a;
    for (int i = 0; i < n; ++i) a[i] = p[i];
    return from_si<Q>(a);
  }
  static void save(const Q& q, T* p) {
    const auto a = to_si(q);
    for (int i = 0; i < n; ++i) p[i] = a[i];
  }
  static std::array<int, 7> dims() {
    const PhQ::Dimensions d = Q::Dimensions();
    return {d.Time().Value(), d.Length().Value(), d.Mass().Value(), d.ElectricCurrent().Value(),
            d.Temperature().Value(), d.SubstanceAmount().Value(), d.LuminousIntensity().Value()};
  }
};

struct Operand {
  int n = 1;
  std::array<int, 7> dims{};
  bool number = false;
};
template <typename X> static Operand operand() {
  Operand o;
  o.n = Op<X>::n;
  o.dims = Op<X>::dims();
  o.number = Op<X>::is_number;
  return o;
}

// in[k] points to the numbers of argument k; out receives the result; stored[k] receives what the library
// stores for argument k (directions normalise)
using Thunk = std::function<void(const T* const* in, T* out, T* const* stored)>;

struct Rel {
  enum Kind { OPERATOR, CTOR, MEMBER } kind = OPERATOR;
  std::string what;
  char op = 0;
  std::vector<Operand> in;
  Operand out;
  Thunk call;
  std::vector<Thunk> twins;   // constructor forms of the same relation (operands already in operator order)
  Thunk op_inverse;           // (c op' b) -> a, in = {c, b}
  std::string op_inverse_what;
  uint64_t id = 0;
};
struct Pair {
  std::string what;
  std::vector<Operand> in;  // arguments of the forward constructor
  Operand mid;              // its result
  int r = 0;                // index of the recovered argument
  Thunk forward;            // in -> c
  Thunk inverse;            // {c, a0..an-1} -> y
  uint64_t id = 0;
};
struct HistoryType {
  std::string name;
  int n = 1;
  uint64_t id = 0;
  // a step draws a right-hand side and applies `acc op= b` and `shadow = shadow op b` on two objects
  // that the closure owns; reset(values) re-initialises both; read(acc, shadow) returns the stored numbers
  std::vector<std::pair<std::string, std::function<void(Rng&)>>> steps;
  std::function<void(const T*)> reset;
  std::function<void(T*, T*)> read;
};
struct MathType {
  std::string name;
  uint64_t id = 0;
  std::function<void(Reporter&, Rng&, int)> run;
};

static std::vector<Rel> g_rels;
static std::vector<Pair> g_pairs;
static std::vector<HistoryType> g_histories;
static std::vector<MathType> g_math;

template <typename C, typename... A, typename F>
static Thunk make_thunk(F f) {
  return [f](const T* const* in, T* out, T* const* stored) {
    size_t k = 0;
    std::tuple<A...> qs{Op<A>::load(in[k++])...};
    if (stored) {
      size_t j = 0;
      std::apply([&](const auto&... q) { (Op<std::decay_t<decltype(q)>>::save(q, stored[j++]), ...); }, qs);
    }
    const C c = std::apply(f, qs);
    Op<C>::save(c, out);
  };
}

// ------------------------------------------------------------------------------------------------
// detection idioms
// ------------------------------------------------------------------------------------------------
struct Add { static constexpr char c = '+'; template <class A, class B> static auto ap(const A& a, const B& b) -> decltype(a + b) { return a + b; } };
struct Sub { static constexpr char c = '-'; template <class A, class B> static auto ap(const A& a, const B& b) -> decltype(a - b) { return a - b; } };
struct Mul { static constexpr char c = '*'; template <class A, class B> static auto ap(const A& a, const B& b) -> decltype(a * b) { return a * b; } };
struct Div { static constexpr char c = '/'; template <class A, class B> static auto ap(const A& a, const B& b) -> decltype(a / b) { return a / b; } };
struct AddA { static constexpr const char* s = "+="; using Pure = Add; template <class A, class B> static auto ap(A& a, const B& b) -> decltype(a += b) { return a += b; } };
struct SubA { static constexpr const char* s = "-="; using Pure = Sub; template <class A, class B> static auto ap(A& a, const B& b) -> decltype(a -= b) { return a -= b; } };
struct MulA { static constexpr const char* s = "*="; using Pure = Mul; template <class A, class B> static auto ap(A& a, const B& b) -> decltype(a *= b) { return a *= b; } };
struct DivA { static constexpr const char* s = "/="; using Pure = Div; template <class A, class B> static auto ap(A& a, const B& b) -> decltype(a /= b) { return a /= b; } };

template <class O, class A, class B, class = void> struct has_op : std::false_type {};
template <class O, class A, class B>
struct has_op<O, A, B, std::void_t<decltype(O::ap(std::declval<const A&>(), std::declval<const B&>()))>> : std::true_type {
  using type = std::decay_t<decltype(O::ap(std::declval<const A&>(), std::declval<const B&>()))>;
};
template <class O, class A, class B, class = void> struct has_cop : std::false_type {};
template <class O, class A, class B>
struct has_cop<O, A, B, std::void_t<decltype(O::ap(std::declval<A&>(), std::declval<const B&>()))>> : std::true_type {};

template <typename X> struct is_operand : std::false_type {};
template <> struct is_operand<T> : std::true_type {};
#define X(Q, I) template <> struct is_operand<PhQ::Q<T>> : std::true_type {};
VERIF_QUANTITIES(X)
#undef X

template <class O> struct Inverse;
template <> struct Inverse<Add> { using type = Sub; };
template <> struct Inverse<Sub> { using type = Add; };
template <> struct Inverse<Mul> { using type = Div; };
template <> struct Inverse<Div> { using type = Mul; };

// ------------------------------------------------------------------------------------------------
// registration (compile-time enumeration -> runtime tables)
// ------------------------------------------------------------------------------------------------
static uint64_t g_inst = 0;

template <class O, typename A, typename B>
static void reg_op(const char* na, const char* nb) {
  ++g_inst;
  if constexpr (has_op<O, A, B>::value) {
    using C = typename has_op<O, A, B>::type;
    if constexpr (is_operand<C>::value) {
      if (!g_args->mine(g_inst)) return;
      Rel r;
      r.kind = Rel::OPERATOR;
      r.op = O::c;
      r.what = std::string(na) + O::c + nb;
      r.in = {operand<A>(), operand<B>()};
      r.out = operand<C>();
      r.id = g_inst;
      r.call = make_thunk<C, A, B>([](const A& a, const B& b) { return O::ap(a, b); });
      if constexpr (!Op<A>::is_number && !Op<B>::is_number && !Op<C>::is_number) {
        if constexpr (std::is_constructible_v<C, const A&, const B&>) {
          r.twins.push_back(make_thunk<C, A, B>([](const A& a, const B& b) { return C(a, b); }));
        }
        if constexpr (std::is_constructible_v<C, const B&, const A&> && !std::is_same_v<A, B>) {
          r.twins.push_back(make_thunk<C, A, B>([](const A& a, const B& b) { return C(b, a); }));
        }
      }
      using OI = typename Inverse<O>::type;
      if constexpr (has_op<OI, C, B>::value) {
        if constexpr (std::is_same_v<typename has_op<OI, C, B>::type, A> && Op<A>::n == Op<C>::n && Op<B>::n == 1) {
          r.op_inverse = make_thunk<A, C, B>([](const C& c, const B& b) { return OI::ap(c, b); });
          r.op_inverse_what = "(" + r.what + ")" + OI::c + nb;
        }
      }
      g_rels.push_back(std::move(r));
    }
  }
}

template <class CO, typename A, typename B>
static void reg_step(HistoryType& H, const std::shared_ptr<std::pair<A, A>>& st, const char* nb) {
  using PO = typename CO::Pure;
  if constexpr (has_cop<CO, A, B>::value && has_op<PO, A, B>::value) {
    if constexpr (std::is_same_v<typename has_op<PO, A, B>::type, A>) {
      H.steps.emplace_back(std::string(CO::s) + nb, [st](Rng& rng) {
        constexpr bool mult = std::is_same_v<CO, MulA> || std::is_same_v<CO, DivA>;
        T vals[kMaxN];
        for (int i = 0; i < Op<B>::n; ++i) vals[i] = rng.logu<T>(mult ? -1 : -6, mult ? 0 : 6, true);
        const B b = Op<B>::load(vals);
        CO::ap(st->first, b);
        st->second = PO::ap(st->second, b);
      });
    }
  }
}

template <typename Q>
static void reg_math(const char* nq, uint64_t id) {
  if constexpr (!has_unit<Q>::value && n_of<Q> == 1) {
    MathType m;
    m.name = nq;
    m.id = id;
    m.run = [nq](Reporter& R, Rng& rng, int reps) {
      const std::string key = std::string("C04|math|") + nq + "|" + TN;
      for (int rep = 0; rep < reps; ++rep) {
        // mostly generic values; every tenth draw is a signed zero or a boundary value of the functions' domains
        static const T special[] = {static_cast<T>(0), -static_cast<T>(0), static_cast<T>(1), static_cast<T>(-1),
                                    std::numeric_limits<T>::min(), -std::numeric_limits<T>::min(), std::numeric_limits<T>::denorm_min(),
                                    std::numeric_limits<T>::max(), -std::numeric_limits<T>::max()};
        const T v = rep % 10 == 9 ? special[(rep / 10) % 9] : rng.logu<T>(-10, 10, true);
        const T p = rng.logu<T>(-2, 2, true);
        const float pf = rng.logu<float>(-2, 2, true);
        const double pd = rng.logu<double>(-2, 2, true);
        const long double pl = rng.logu<long double>(-2, 2, true);
        const Q q = Op<Q>::load(&v);
        const T x = q.Value();
        struct { const char* n; T got, want; } rows[] = {
            {"abs", static_cast<T>(std::abs(q)), std::abs(x)},       {"sqrt", static_cast<T>(std::sqrt(q)), std::sqrt(x)},
            {"cbrt", static_cast<T>(std::cbrt(q)), std::cbrt(x)},    {"exp", static_cast<T>(std::exp(q)), std::exp(x)},
            {"log", static_cast<T>(std::log(q)), std::log(x)},       {"log2", static_cast<T>(std::log2(q)), std::log2(x)},
            {"log10", static_cast<T>(std::log10(q)), std::log10(x)}, {"pow", static_cast<T>(std::pow(q, p)), std::pow(x, p)},
            {"pow-int", static_cast<T>(std::pow(q, 3)), static_cast<T>(std::pow(x, 3))},
            // an exponent of another numeric type is used as given (not narrowed to the quantity's type first)
            {"pow-float-exponent", static_cast<T>(std::pow(q, pf)), static_cast<T>(std::pow(x, pf))},
            {"pow-double-exponent", static_cast<T>(std::pow(q, pd)), static_cast<T>(std::pow(x, pd))},
            {"pow-long-double-exponent", static_cast<T>(std::pow(q, pl)), static_cast<T>(std::pow(x, pl))},
        };
        for (auto& r : rows) {
          R.eval();
          if (!same_value_bits(r.got, r.want)) {
            R.violation(key + "|" + r.n, J().s("function", r.n).num("x", x).num("exponent", p).num("got", r.got).num("want", r.want).str());
            return;
          }
        }
      }
    };
    g_math.push_back(std::move(m));
  }
}

template <typename A>
static void reg_left(const char* na, uint64_t ia) {
  HistoryType H;
  std::shared_ptr<std::pair<A, A>> st;
  if constexpr (!Op<A>::is_number) {
    st = std::make_shared<std::pair<A, A>>();
    H.name = na;
    H.n = Op<A>::n;
    H.id = ia;
    H.reset = [st](const T* v) { st->first = Op<A>::load(v); st->second = st->first; };
    H.read = [st](T* a, T* b) { Op<A>::save(st->first, a); Op<A>::save(st->second, b); };
  }
#define X(Q, I)                                   \
  reg_op<Add, A, PhQ::Q<T>>(na, #Q);              \
  reg_op<Sub, A, PhQ::Q<T>>(na, #Q);              \
  reg_op<Mul, A, PhQ::Q<T>>(na, #Q);              \
  reg_op<Div, A, PhQ::Q<T>>(na, #Q);              \
  if constexpr (!Op<A>::is_number) {              \
    reg_step<AddA, A, PhQ::Q<T>>(H, st, #Q);      \
    reg_step<SubA, A, PhQ::Q<T>>(H, st, #Q);      \
    reg_step<MulA, A, PhQ::Q<T>>(H, st, #Q);      \
    reg_step<DivA, A, PhQ::Q<T>>(H, st, #Q);      \
  }
  VERIF_QUANTITIES(X)
#undef X
  reg_op<Add, A, T>(na, "number");
  reg_op<Sub, A, T>(na, "number");
  reg_op<Mul, A, T>(na, "number");
  reg_op<Div, A, T>(na, "number");
  if constexpr (!Op<A>::is_number) {
    reg_step<AddA, A, T>(H, st, "number");
    reg_step<SubA, A, T>(H, st, "number");
    reg_step<MulA, A, T>(H, st, "number");
    reg_step<DivA, A, T>(H, st, "number");
    if (g_args->mine(ia)) {
      if (!H.steps.empty()) g_histories.push_back(std::move(H));
      reg_math<A>(na, ia);
    }
  }
}

static std::vector<std::string> g_unconfirmed;

template <template <typename> class C, template <typename> class... A>
static void visit_ctor(Reporter&, uint64_t idx, const std::string& what) {
  if (!g_args->mine(idx)) return;
  if constexpr (std::is_constructible_v<C<T>, const A<T>&...>) {
    Rel r;
    r.kind = Rel::CTOR;
    r.what = what;
    r.in = {operand<A<T>>()...};
    r.out = operand<C<T>>();
    r.id = 1000000 + idx;
    r.call = make_thunk<C<T>, A<T>...>([](const A<T>&... a) { return C<T>(a...); });
    g_rels.push_back(std::move(r));
  } else {
    g_unconfirmed.push_back(what);
  }
}

template <typename Ret, typename Owner, typename... Arg, typename F>
static void visit_member(Reporter&, uint64_t idx, const std::string& what, F f) {
  if (!g_args->mine(idx)) return;
  if constexpr (std::is_invocable_v<F, const Owner&, const Arg&...>) {
    if constexpr (std::is_same_v<std::decay_t<std::invoke_result_t<F, const Owner&, const Arg&...>>, Ret>) {
      Rel r;
      r.kind = Rel::MEMBER;
      r.what = what;
      r.in = {operand<Owner>(), operand<Arg>()...};
      r.out = operand<Ret>();
      r.id = 2000000 + idx;
      r.call = make_thunk<Ret, Owner, Arg...>(f);
      g_rels.push_back(std::move(r));
      return;
    }
  }
  g_unconfirmed.push_back(what);
}

template <typename C, int r, typename... A, typename F>
static void c05_ctor_pair(Reporter&, uint64_t idx, const std::string& what, F inv) {
  if (!g_args->mine(idx)) return;
  if constexpr (std::is_constructible_v<C, const A&...> && std::is_invocable_v<F, const C&, const A&...>) {
    using Y = std::tuple_element_t<r, std::tuple<A...>>;
    if constexpr (std::is_same_v<std::decay_t<std::invoke_result_t<F, const C&, const A&...>>, Y>) {
      Pair p;
      p.what = what;
      p.in = {operand<A>()...};
      p.mid = operand<C>();
      p.r = r;
      p.id = idx;
      p.forward = make_thunk<C, A...>([](const A&... a) { return C(a...); });
      p.inverse = make_thunk<Y, C, A...>(inv);
      g_pairs.push_back(std::move(p));
      return;
    }
  }
  g_unconfirmed.push_back(what);
}

#include "relations.hpp"  // generated: verif_ctors_c03 / verif_members_c03 / verif_pairs_c05

// ------------------------------------------------------------------------------------------------
// drivers (ordinary code)
// ------------------------------------------------------------------------------------------------
struct Buf {
  T v[kMaxN][kMaxN];
  const T* p[kMaxN];
  T sv[kMaxN][kMaxN];
  T* sp[kMaxN];
  Buf() {
    for (int i = 0; i < kMaxN; ++i) {
      p[i] = v[i];
      sp[i] = sv[i];
    }
  }
};

static std::string arr_json(const T* a, int n) {
  std::string o = "[";
  for (int i = 0; i < n; ++i) o += (i ? "," : "") + std::string("{\"dec\":\"") + dec(a[i]) + "\",\"bits\":\"" + bits(a[i]) + "\"}";
  return o + "]";
}
static std::string inputs_json(const Buf& b, const std::vector<Operand>& in, bool stored) {
  std::string o = "[";
  for (size_t k = 0; k < in.size(); ++k) o += (k ? "," : "") + arr_json(stored ? b.sv[k] : b.v[k], in[k].n);
  return o + "]";
}
static void fill_random(Buf& b, const std::vector<Operand>& in, Rng& rng, int elo, int ehi, bool sign) {
  for (size_t k = 0; k < in.size(); ++k) {
    for (int i = 0; i < in[k].n; ++i) b.v[k][i] = rng.logu<T>(elo, ehi, sign);
  }
}
static bool normal_or_zero(T v) { return v == 0 || std::isnormal(v); }

// C05 operand classes: wide log-uniform, moderate, and "near": operands that share a dimension set are
// nearly equal (cp ~ cv, total ~ static) and dimensionless ones are near one (gamma -> 1, Mach -> 1), which is
// where relations that subtract lose their accuracy.
static const char* kC05Class[4] = {"wide", "moderate", "near-equal/near-one", "range-ends"};
static void fill_c05(Buf& b, const std::vector<Operand>& in, Rng& rng, int cls, int e) {
  if (cls == 0) {
    fill_random(b, in, rng, -e, e, false);
  } else if (cls == 1) {
    fill_random(b, in, rng, -10, 10, false);
  } else if (cls == 3) {
    // magnitudes over (almost) the whole exponent range of T: only judged when the forward result is a normal number
    fill_random(b, in, rng, Num<T>::emin + 8, Num<T>::emax - 8, false);
  } else {
    std::map<std::array<int, 7>, T> scale;
    for (size_t k = 0; k < in.size(); ++k) {
      auto it = scale.find(in[k].dims);
      if (it == scale.end()) {
        bool dimensionless = true;
        for (int d : in[k].dims) dimensionless = dimensionless && d == 0;
        it = scale.emplace(in[k].dims, dimensionless ? static_cast<T>(1) : std::ldexp(static_cast<T>(1), rng.range(-10, 10))).first;
      }
      for (int i = 0; i < in[k].n; ++i) {
        const T delta = std::ldexp(rng.mantissa<T>(), -rng.range(1, std::is_same_v<T, float> ? 12 : 24));
        b.v[k][i] = it->second * (static_cast<T>(1) + (rng.below(4) == 0 ? -delta / 2 : delta));
      }
    }
  }
}

// ---- C03 ----
static void c03_driver(Reporter& R, const Rel& r) {
  const std::string key = "C03|" + r.what + "|" + TN;
  Rng rng(mix(mix(g_args->seed, 0xC03), mix(r.id, hash_str(r.what))));
  const int reps = static_cast<int>(g_args->n("rescalings", g_args->thorough() ? 512 : 16));
  const int lo = std::is_same_v<T, float> ? -4 : -8, hi = -lo;
  R.crumb(key);
  if (r.kind == Rel::OPERATOR) {
    // declared dimension algebra of the operator's result type
    bool ok = true;
    for (int i = 0; i < 7; ++i) {
      const int a = r.in[0].dims[i], b = r.in[1].dims[i], c = r.out.dims[i];
      const int want = r.op == '*' ? a + b : r.op == '/' ? a - b : a;
      ok = ok && c == want && ((r.op != '+' && r.op != '-') || a == b);
    }
    R.eval();
    if (!ok) R.violation("C03|" + r.what + "|declared-dimensions", J().s("operator", r.what).str());
  }
  guarded(R, key, [&] {
    Buf b1, b2;
    T o1[kMaxN], o2[kMaxN];
    for (int rep = 0; rep < reps; ++rep) {
      std::array<int, 7> k{};
      if (std::is_same_v<T, float>) {
        k[rng.below(7)] = rng.coin() ? 1 : -1;  // one base unit at a time keeps 4-argument products inside float range
      } else {
        bool any = false;
        for (auto& v : k) {
          v = rng.range(-1, 1);
          any = any || v != 0;
        }
        if (!any) k[rng.below(7)] = 1;
      }
      auto expo = [&](const std::array<int, 7>& d) {
        int e = 0;
        for (int i = 0; i < 7; ++i) e += 6 * k[i] * d[i];
        return e;
      };
      fill_random(b1, r.in, rng, lo, hi, true);
      for (size_t a = 0; a < r.in.size(); ++a) {
        const int e = expo(r.in[a].dims);
        for (int i = 0; i < r.in[a].n; ++i) b2.v[a][i] = std::ldexp(b1.v[a][i], e);
      }
      r.call(b1.p, o1, b1.sp);
      r.call(b2.p, o2, b2.sp);
      const int eo = expo(r.out.dims);
      R.eval();
      for (int i = 0; i < r.out.n; ++i) {
        const T want = std::ldexp(o1[i], eo);
        if (o1[i] != o1[i] && o2[i] != o2[i]) continue;
        if (!normal_or_zero(want) || !normal_or_zero(o2[i]) || !normal_or_zero(o1[i])) {
          R.count("c03_skipped_out_of_range");
          break;
        }
        if (!same_value_bits(want, o2[i])) {
          std::string ks = "[";
          for (int j = 0; j < 7; ++j) ks += (j ? "," : "") + std::to_string(k[j]);
          ks += "]";
          R.violation(key, J().s("relation", r.what).s("numeric_type", TN).raw("base_unit_rescaling_exponents_div6_TLMIThNJ", ks)
                               .raw("inputs", inputs_json(b1, r.in, false)).i("slot", i).num("result", o1[i])
                               .num("rescaled_result_expected", want).num("result_from_rescaled_inputs", o2[i])
                               .i("result_scale_log2", eo).str());
          return;
        }
      }
    }
    R.nontrivial(hash_str(key));
    if (R.want_sample(r.id, 41)) {
      R.sample(J().s("relation", r.what).s("numeric_type", TN).raw("inputs", inputs_json(b1, r.in, false)).raw("result", arr_json(o1, r.out.n))
                   .raw("result_from_rescaled_inputs", arr_json(o2, r.out.n)).str());
    }
  });
  R.count(std::string(r.kind == Rel::OPERATOR ? "c03_operator_instances_" : r.kind == Rel::CTOR ? "c03_constructors_" : "c03_members_") + TN);
}

// ---- C04 ----
static T ieee(char op, T a, T b) { return op == '+' ? a + b : op == '-' ? a - b : op == '*' ? a * b : a / b; }

static void embed_matrix(const T* a, int n, f128 m[3][3]) {
  if (n == 6) {
    m[0][0] = a[0]; m[0][1] = a[1]; m[0][2] = a[2];
    m[1][0] = a[1]; m[1][1] = a[3]; m[1][2] = a[4];
    m[2][0] = a[2]; m[2][1] = a[4]; m[2][2] = a[5];
  } else {
    for (int i = 0; i < 3; ++i) for (int j = 0; j < 3; ++j) m[i][j] = a[3 * i + j];
  }
}

static void c04_driver(Reporter& R, const Rel& r) {
  const int na = r.in[0].n, nb = r.in[1].n, nc = r.out.n;
  const bool additive = r.op == '+' || r.op == '-';
  const bool slotwise = additive && na == nb && nb == nc;
  const bool scale_right = !additive && nb == 1 && na == nc;
  const bool scale_left = r.op == '*' && na == 1 && nb == nc && nb > 1;
  const bool matvec = r.op == '*' && (na == 6 || na == 9) && (nb == 3 || nb == 2) && nc == nb;
  const bool matmat = r.op == '*' && (na == 6 || na == 9) && (nb == 6 || nb == 9) && nc == 9;
  const std::string key = "C04|" + r.what + "|" + TN;
  if (!(slotwise || scale_right || scale_left || matvec || matmat)) {
    R.list("c04_unmodelled_shape_combinations", r.what + " (" + std::to_string(na) + "," + std::to_string(nb) + "->" + std::to_string(nc) + ")");
    return;
  }
  Rng rng(mix(mix(g_args->seed, 0xC04), mix(r.id, hash_str(r.what))));
  const int reps = static_cast<int>(g_args->n("operands", g_args->thorough() ? 20000 : 200));
  R.crumb(key);
  guarded(R, key, [&] {
    Buf b;
    T out[kMaxN], tw[kMaxN];
    for (int rep = 0; rep < reps; ++rep) {
      fill_random(b, r.in, rng, -12, 12, true);
      r.call(b.p, out, b.sp);
      const T* sa = b.sv[0];
      const T* sb = b.sv[1];
      R.eval();
      if (slotwise || scale_right || scale_left) {
        T want[kMaxN];
        for (int i = 0; i < nc; ++i) want[i] = slotwise ? ieee(r.op, sa[i], sb[i]) : scale_right ? ieee(r.op, sa[i], sb[0]) : ieee(r.op, sa[0], sb[i]);
        for (int i = 0; i < nc; ++i) {
          if (!same_value_bits(out[i], want[i])) {
            R.violation(key, J().s("operator", r.what).s("numeric_type", TN).raw("operands_as_stored", inputs_json(b, r.in, true))
                                 .raw("result", arr_json(out, nc)).raw("ieee_result_expected", arr_json(want, nc)).str());
            return;
          }
        }
      } else {
        f128 m[3][3], ref[9] = {}, mag[9] = {};
        embed_matrix(sa, na, m);
        if (matvec) {
          f128 v[3] = {sb[0], sb[1], nb == 3 ? static_cast<f128>(sb[2]) : 0.0Q};
          for (int i = 0; i < nb; ++i) for (int k = 0; k < 3; ++k) { ref[i] += m[i][k] * v[k]; mag[i] += fabsq(m[i][k] * v[k]); }
        } else {
          f128 m2[3][3];
          embed_matrix(sb, nb, m2);
          for (int i = 0; i < 3; ++i) for (int j = 0; j < 3; ++j) for (int k = 0; k < 3; ++k) {
            ref[3 * i + j] += m[i][k] * m2[k][j];
            mag[3 * i + j] += fabsq(m[i][k] * m2[k][j]);
          }
        }
        for (int i = 0; i < nc; ++i) {
          const double e = static_cast<double>(fabsq(static_cast<f128>(out[i]) - ref[i]) / ulp_at<T>(mag[i]));
          R.maxi(std::string("c04_tensor_product_error_ulps_of_term_scale_") + TN, e);
          if (!(e <= 4.0)) {
            R.violation(key + "|slot=" + std::to_string(i),
                        J().s("operator", r.what).s("numeric_type", TN).raw("operands_as_stored", inputs_json(b, r.in, true))
                            .raw("result", arr_json(out, nc)).q("reference", ref[i]).d("error_ulps", e).str());
            return;
          }
        }
      }
      // twins: a constructor of the result type from the same operands must give the identical value
      if (!r.twins.empty()) {
        bool any = false;
        for (auto& t : r.twins) {
          t(b.p, tw, nullptr);
          bool same = true;
          for (int i = 0; i < nc; ++i) same = same && same_value_bits(tw[i], out[i]);
          any = any || same;
        }
        R.eval();
        if (!any) {
          R.violation("C04|twin|" + r.what + "|" + TN,
                      J().s("operator", r.what).s("numeric_type", TN).raw("operands_as_stored", inputs_json(b, r.in, true))
                          .raw("operator_result", arr_json(out, nc)).raw("constructor_result", arr_json(tw, nc)).str());
          return;
        }
      }
      if (rep == 0 && R.want_sample(r.id, 37)) {
        R.sample(J().s("operator", r.what).s("numeric_type", TN).raw("operands_as_stored", inputs_json(b, r.in, true))
                     .raw("result", arr_json(out, nc)).str());
      }
    }
    R.nontrivial(hash_str(key));
    if (!r.twins.empty()) R.nontrivial(hash_str("twin" + key));
  });
  R.count(std::string("c04_operator_instances_") + TN);
  R.count(std::string("c04_op") + r.op);
  if (!r.twins.empty()) R.count(std::string("c04_twins_") + TN);
}

static void c04_history_driver(Reporter& R, HistoryType& H) {
  const std::string key = "C04|history|" + H.name + "|" + TN;
  Rng rng(mix(mix(g_args->seed, 0x4157), H.id));
  const int n = static_cast<int>(g_args->n("histories", g_args->thorough() ? 5000 : 40));
  R.crumb(key);
  guarded(R, key, [&] {
    T init[kMaxN], a[kMaxN], s[kMaxN];
    for (int h = 0; h < n; ++h) {
      for (int i = 0; i < H.n; ++i) init[i] = rng.logu<T>(-6, 6, true);
      H.reset(init);
      const int len = rng.range(1, 40);
      std::string trace;
      for (int st = 0; st < len; ++st) {
        auto& step = H.steps[rng.below(H.steps.size())];
        step.second(rng);
        if (trace.size() < 400) trace += step.first + " ";
        H.read(a, s);
        R.eval();
        for (int i = 0; i < H.n; ++i) {
          if (!same_value_bits(a[i], s[i])) {
            R.violation(key, J().s("accumulator_type", H.name).s("numeric_type", TN).s("history", trace).i("step", st)
                                 .raw("initial", arr_json(init, H.n)).raw("compound_result", arr_json(a, H.n))
                                 .raw("pure_chain_result", arr_json(s, H.n)).str());
            return;
          }
        }
      }
      if (h == 0 && R.want_sample(H.id, 23)) {
        R.sample(J().s("accumulator_type", H.name).s("numeric_type", TN).s("history", trace).raw("final", arr_json(a, H.n)).str());
      }
    }
    R.nontrivial(hash_str(key));
  });
  R.count(std::string("c04_history_types_") + TN);
  R.count("c04_history_step_kinds", static_cast<long long>(H.steps.size()));
}

// ---- C05 ----
static const int kE5 = std::is_same_v<T, float> ? 26 : 66;  // +-8 / +-20 decades

// `resense(i, up)` re-evaluates the inverse with slot i of the intermediate moved by one ulp (up or down) and
// writes the recovered operand; it lets the judge measure how far one rounding of the intermediate moves
// the answer (relations such as cv = R/(gamma-1) composed with gamma = 1 + R/cv are ill-conditioned by nature).
static bool c05_judge(Reporter& R, const std::string& key, const std::string& what, const T* orig, const T* back, int n,
                      double K, f128 additive_scale, const std::string& inputs, int mid_n,
                      const std::function<void(int, bool, T*)>& resense) {
  R.eval();
  f128 delta[kMaxN];
  bool have_delta = false;
  for (int i = 0; i < n; ++i) {
    f128 scale = fabsq(static_cast<f128>(orig[i]));
    if (additive_scale > scale) scale = additive_scale;
    const bool finite = back[i] == back[i] && !std::isinf(static_cast<long double>(back[i]));
    double e = finite ? static_cast<double>(fabsq(static_cast<f128>(back[i]) - static_cast<f128>(orig[i])) / ulp_at<T>(scale))
                      : std::numeric_limits<double>::infinity();
    if (!(e <= K)) {
      if (!have_delta) {
        for (int j = 0; j < n; ++j) delta[j] = 0;
        T moved[kMaxN];
        for (int s = 0; s < mid_n; ++s) {
          for (int up = 0; up < 2; ++up) {
            resense(s, up == 1, moved);
            for (int j = 0; j < n; ++j) {
              const f128 d = fabsq(static_cast<f128>(moved[j]) - static_cast<f128>(back[j]));
              if (!(d == d) || isinfq(d)) delta[j] = HUGE_VALQ;
              else if (d > delta[j]) delta[j] = d;
            }
          }
        }
        have_delta = true;
      }
      // one rounding of the intermediate moves the answer by more than 1 %: the first-order estimate of the
      // conditioning is itself unreliable there (gamma recovered from cp - R when cp and R agree to the last bits)
      const bool hopeless = finite && delta[i] > fabsq(static_cast<f128>(back[i])) / 100;
      if (isinfq(delta[i]) || !finite || hopeless) {
        // the inverse is singular at this intermediate (e.g. gamma rounded to exactly 1): nothing can be said
        R.count("c05_singular_intermediate_skipped");
        R.list("c05_pairs_with_singular_cases", what);
        return true;
      }
      const double ec = static_cast<double>(fabsq(static_cast<f128>(back[i]) - static_cast<f128>(orig[i])) / (ulp_at<T>(scale) + delta[i]));
      R.maxi(std::string("c05_max_error_in_units_of_ulp_plus_conditioning_") + TN, ec);
      if (ec <= K) {
        R.count("c05_accepted_on_conditioning");
        R.list("c05_pairs_needing_conditioning_term", what);
        continue;
      }
      R.violation(key, J().s("pair", what).s("numeric_type", TN).raw("inputs", inputs).raw("original", arr_json(orig, n))
                           .raw("recovered", arr_json(back, n)).d("error_ulps", e).d("error_in_units_of_ulp_plus_conditioning", ec)
                           .d("bound", K).str());
      return false;
    }
    R.maxi(std::string("c05_max_error_ulps_") + TN, e);
    if (e > 2.0) R.maxi("c05_pairs_above_2_ulps|" + what + "|" + TN, e);
  }
  return true;
}

static f128 max_abs(const T* a, int n) {
  f128 m = 0;
  for (int i = 0; i < n; ++i) {
    if (fabsq(static_cast<f128>(a[i])) > m) m = fabsq(static_cast<f128>(a[i]));
  }
  return m;
}

static void c05_operator_driver(Reporter& R, const Rel& r) {
  if (!r.op_inverse) return;
  const std::string key = "C05|" + r.op_inverse_what + "|" + TN;
  Rng rng(mix(mix(g_args->seed, 0xC05), mix(r.id, hash_str(r.what))));
  const bool additive = r.op == '+' || r.op == '-';
  const int reps = static_cast<int>(g_args->n("inputs", g_args->thorough() ? 20000 : 200));
  const int e = additive ? 20 : kE5;
  R.crumb(key);
  guarded(R, key, [&] {
    Buf b, b2;
    T c[kMaxN], back[kMaxN];
    for (int rep = 0; rep < reps; ++rep) {
      const int cls = g_args->n("range_ends", 0) ? rep % 4 : rep % 3;
      fill_c05(b, r.in, rng, cls, e);
      r.call(b.p, c, b.sp);
      if (cls == 3) {
        bool usable = true;
        for (int i = 0; i < r.out.n; ++i) usable = usable && std::isnormal(c[i]) && std::fabs(std::ilogb(c[i])) < Num<T>::emax - 8;
        if (!usable) { R.count("c05_range_ends_skipped"); continue; }
        R.count("c05_range_ends_judged");
      }
      for (int i = 0; i < r.out.n; ++i) b2.v[0][i] = c[i];
      for (int i = 0; i < r.in[1].n; ++i) b2.v[1][i] = b.v[1][i];
      r.op_inverse(b2.p, back, nullptr);
      f128 sc = 0;
      if (additive) sc = std::max(max_abs(c, r.out.n), max_abs(b.sv[1], r.in[1].n));
      auto resense = [&](int slot, bool up, T* moved) {
        Buf b3;
        for (int i = 0; i < r.out.n; ++i) b3.v[0][i] = c[i];
        b3.v[0][slot] = up ? next_up(c[slot]) : next_down(c[slot]);
        for (int i = 0; i < r.in[1].n; ++i) b3.v[1][i] = b.v[1][i];
        r.op_inverse(b3.p, moved, nullptr);
      };
      if (!c05_judge(R, key, r.op_inverse_what, b.sv[0], back, r.in[0].n, 4.0, sc, inputs_json(b, r.in, true), r.out.n, resense)) return;
    }
    R.nontrivial(hash_str(key));
  });
  R.count(std::string("c05_operator_pairs_") + TN);
}

static void c05_pair_driver(Reporter& R, const Pair& p) {
  const std::string key = "C05|" + p.what + "|" + TN;
  Rng rng(mix(mix(g_args->seed, 0xC05C), mix(p.id, hash_str(p.what))));
  const int nargs = static_cast<int>(p.in.size());
  bool additive = nargs == 2;
  for (auto& o : p.in) additive = additive && o.dims == p.mid.dims;
  const double K = nargs <= 2 ? 4.0 : 8.0;
  const int e = additive ? 20 : (nargs >= 3 ? kE5 / 2 : kE5);
  const int reps = static_cast<int>(g_args->n("inputs", g_args->thorough() ? 20000 : 200));
  R.crumb(key);
  guarded(R, key, [&] {
    Buf b, b2;
    T c[kMaxN], back[kMaxN];
    for (int rep = 0; rep < reps; ++rep) {
      const int cls = g_args->n("range_ends", 0) ? rep % 4 : rep % 3;
      fill_c05(b, p.in, rng, cls, e);
      p.forward(b.p, c, b.sp);
      if (cls == 3) {
        bool usable = true;
        for (int i = 0; i < p.mid.n; ++i) usable = usable && std::isnormal(c[i]) && std::fabs(std::ilogb(c[i])) < Num<T>::emax - 8;
        if (!usable) { R.count("c05_range_ends_skipped"); continue; }
        R.count("c05_range_ends_judged");
      }
      for (int i = 0; i < p.mid.n; ++i) b2.v[0][i] = c[i];
      for (int a = 0; a < nargs; ++a) for (int i = 0; i < p.in[a].n; ++i) b2.v[a + 1][i] = b.v[a][i];
      p.inverse(b2.p, back, nullptr);
      f128 sc = 0;
      if (additive) {
        sc = max_abs(c, p.mid.n);
        for (int a = 0; a < nargs; ++a) sc = std::max(sc, max_abs(b.sv[a], p.in[a].n));
      }
      auto resense = [&](int slot, bool up, T* moved) {
        Buf b3;
        for (int i = 0; i < p.mid.n; ++i) b3.v[0][i] = c[i];
        b3.v[0][slot] = up ? next_up(c[slot]) : next_down(c[slot]);
        for (int a = 0; a < nargs; ++a) for (int i = 0; i < p.in[a].n; ++i) b3.v[a + 1][i] = b.v[a][i];
        p.inverse(b3.p, moved, nullptr);
      };
      if (!c05_judge(R, key, p.what, b.sv[p.r], back, p.in[p.r].n, K, sc, inputs_json(b, p.in, true), p.mid.n, resense)) return;
      if (rep == 0 && R.want_sample(p.id, 29)) {
        R.sample(J().s("pair", p.what).s("numeric_type", TN).raw("inputs", inputs_json(b, p.in, true)).raw("intermediate", arr_json(c, p.mid.n))
                     .raw("recovered", arr_json(back, p.in[p.r].n)).str());
      }
    }
    R.nontrivial(hash_str(key));
  });
  R.count(std::string("c05_constructor_pairs_") + TN);
}

// compound assignment by a number that lives inside the object itself (v /= v.component): the result must
// still be the pure-operator result computed from the original components
template <typename S, size_t N, typename GetArr>
static void c04_alias_probe(Reporter& R, const char* shape, GetArr&& mutable_array) {
  const std::string key = std::string("C04|aliasing|") + shape + "|" + TN;
  Rng rng(mix(mix(g_args->seed, 0xA11A5), hash_str(shape)));
  R.crumb(key);
  guarded(R, key, [&] {
    const int reps = static_cast<int>(g_args->n("operands", g_args->thorough() ? 20000 : 200));
    for (int rep = 0; rep < reps; ++rep) {
      std::array<T, N> a;
      for (auto& v : a) v = rng.logu<T>(-6, 6, true);
      const size_t k = rng.below(N);
      const bool divide = rng.coin();
      S v = FromArr<S>::make(a);
      std::array<T, N>& inside = mutable_array(v);
      if (divide) v /= inside[k];
      else v *= inside[k];
      const auto got = to_arr(v);
      R.eval();
      for (size_t i = 0; i < N; ++i) {
        const T want = divide ? a[i] / a[k] : a[i] * a[k];
        if (!same_value_bits(got[i], want)) {
          R.violation(key + (divide ? "|/=" : "|*="), J().s("shape", shape).s("numeric_type", TN).s("operator", divide ? "/=" : "*=")
                                                          .i("aliased_component", k).i("slot", i).raw("before", jarr(a)).raw("after", jarr(got)).str());
          return;
        }
      }
    }
    R.nontrivial(hash_str(key));
  });
  R.count(std::string("c04_alias_probes_") + TN);
}

}  // namespace

// ------------------------------------------------------------------------------------------------
void VERIF_THIS_PART(Reporter& R, const Args& A) {
  g_args = &A;
  const std::string prop = A.get("prop", "C04");
  g_rels.clear();
  g_pairs.clear();
  g_histories.clear();
  g_math.clear();
  g_unconfirmed.clear();
  g_inst = static_cast<uint64_t>(kBlock) * 100000000ULL;
#define X(Q, I)                                   \
  if constexpr ((I) % kBlocks == kBlock) {        \
    reg_left<PhQ::Q<T>>(#Q, I);                   \
  }
  VERIF_QUANTITIES(X)
#undef X
  if constexpr (kBlock == 0) reg_left<T>("number", 9999);
  if (prop == "C03") {
    verif_ctors_c03<kBlock>(R);
    verif_members_c03<kBlock>(R);
    for (auto& r : g_rels) c03_driver(R, r);
    if constexpr (kBlock == 0 && std::is_same_v<T, double>) {
      if (A.shard == 0) {
        R.count("harvest_loose_ctor_candidates", VERIF_LOOSE_CTOR_CANDIDATES);
        R.count("harvest_loose_member_candidates", VERIF_LOOSE_MEMBER_CANDIDATES);
        R.count("harvest_ctors", VERIF_N_CTORS);
        R.count("harvest_members", VERIF_N_MEMBERS);
      }
    }
  } else if (prop == "C04") {
    for (auto& r : g_rels) c04_driver(R, r);
    for (auto& h : g_histories) c04_history_driver(R, h);
    if constexpr (kBlock == 0) {
      if (A.shard == 0) {
        c04_alias_probe<PhQ::PlanarVector<T>, 2>(R, "PlanarVector", [](PhQ::PlanarVector<T>& v) -> std::array<T, 2>& { return v.Mutable_x_y(); });
        c04_alias_probe<PhQ::Vector<T>, 3>(R, "Vector", [](PhQ::Vector<T>& v) -> std::array<T, 3>& { return v.Mutable_x_y_z(); });
        c04_alias_probe<PhQ::SymmetricDyad<T>, 6>(R, "SymmetricDyad", [](PhQ::SymmetricDyad<T>& v) -> std::array<T, 6>& { return v.Mutable_xx_xy_xz_yy_yz_zz(); });
        c04_alias_probe<PhQ::Dyad<T>, 9>(R, "Dyad", [](PhQ::Dyad<T>& v) -> std::array<T, 9>& { return v.Mutable_xx_xy_xz_yx_yy_yz_zx_zy_zz(); });
      }
    }
    for (auto& m : g_math) {
      const std::string key = "C04|math|" + m.name + "|" + TN;
      Rng rng(mix(mix(A.seed, 0x3A74), m.id));
      R.crumb(key);
      guarded(R, key, [&] { m.run(R, rng, static_cast<int>(A.n("operands", A.thorough() ? 20000 : 200))); });
      R.nontrivial(hash_str(key));
      R.count(std::string("c04_math_types_") + TN);
    }
  } else {
    verif_pairs_c05<kBlock>(R);
    for (auto& r : g_rels) c05_operator_driver(R, r);
    for (auto& p : g_pairs) c05_pair_driver(R, p);
    if constexpr (kBlock == 0 && std::is_same_v<T, double>) {
      if (A.shard == 0) R.count("harvest_pairs", VERIF_N_PAIRS);
    }
  }
  for (auto& u : g_unconfirmed) R.list("harvested_but_not_confirmed", u);
}

#if VERIF_PART == 0
int main(int argc, char** argv) {
  Args A = parse_args(argc, argv);
  Reporter R(A.out);
  verif_run_parts(R, A);
  return R.finish();
}
#endif
