// C01: every unit converts by the factor its own symbol implies.
// Events: (U, from, to, T, x, y = PhQ::Convert(x, from, to)) for all ordered pairs of declared units, plus the
// compile-time single steps ConvertStatically<U, u, Standard> / <U, Standard, u>.
// Oracle: ref = ((x*f_from + o_from) - o_to) / f_to in binary128 with f, o read from a file produced by
// the python symbol grammar (nothing from the conversion code).
#include "allu.hpp"
#include "common/parts.hpp"
#include "common/reflect.hpp"

using namespace verif;

struct UnitOracle {
  f128 f = 0;  // SI magnitude of one unit
  f128 o = 0;  // SI value of the unit's zero (kelvin), non-zero for the Celsius and Fahrenheit scales only
  bool known = false;
  std::string fdec;
};
#if VERIF_PART == 0
std::map<std::string, std::map<int, UnitOracle>> g_oracle;
#else
extern std::map<std::string, std::map<int, UnitOracle>> g_oracle;
#endif

static const f128 PI_Q = 3.14159265358979323846264338327950288419716939937510582097494459Q;

#if VERIF_PART == 0
static void load_oracle(const std::string& path) {
  std::ifstream in(path);
  std::string type, fdec, odec;
  int value, pip;
  while (in >> type >> value >> pip >> fdec >> odec) {
    UnitOracle u;
    u.f = strtoflt128(fdec.c_str(), nullptr);
    for (int i = 0; i < pip; ++i) u.f *= PI_Q;
    for (int i = 0; i > pip; --i) u.f /= PI_Q;
    u.o = strtoflt128(odec.c_str(), nullptr);
    u.known = true;
    u.fdec = fdec;
    g_oracle[type][value] = u;
  }
}
#endif

template <typename T>
static std::vector<std::pair<T, const char*>> make_values(Rng& rng, int k, bool thorough) {
  std::vector<std::pair<T, const char*>> v;
  const int E = std::is_same_v<T, float> ? 40 : std::is_same_v<T, double> ? 300 : 4000;
  v.push_back({static_cast<T>(1.2345678901234567890L), "suite-literal"});
  v.push_back({static_cast<T>(0.0), "+0"});
  v.push_back({-static_cast<T>(0.0), "-0"});
  v.push_back({static_cast<T>(1), "one"});
  v.push_back({static_cast<T>(-1), "minus-one"});
  v.push_back({static_cast<T>(rng.range(2, 1000)), "small-integer"});
  v.push_back({std::ldexp(static_cast<T>(1), rng.range(-E, E)), "power-of-two"});
  v.push_back({-std::ldexp(static_cast<T>(1), rng.range(-E, E)), "power-of-two"});
  while (static_cast<int>(v.size()) < k) {
    const int cls = static_cast<int>(rng.below(4));
    if (cls == 0) v.push_back({rng.logu<T>(-10, 10, true), "moderate"});
    else if (cls == 1) v.push_back({rng.logu<T>(-E, -10, true), "tiny"});
    else if (cls == 2) v.push_back({rng.logu<T>(10, E, true), "huge"});
    else v.push_back({rng.logu<T>(-E, E, true), "log-uniform"});
  }
  (void)thorough;
  return v;
}

static const double kBoundUlps = 16.0;

template <typename T>
static bool in_safe_range(f128 v) {
  const f128 a = fabsq(v);
  if (a == 0) return true;
  const f128 lo = ldexpq(1.0Q, Num<T>::emin + 1);
  const f128 hi = ldexpq(1.0Q, Num<T>::emax - 1);
  return a >= lo && a <= hi;
}

// judge one observation
template <typename T>
static void judge(Reporter& R, const std::string& tname, const std::string& from_id, const std::string& to_id,
                  const UnitOracle& a, const UnitOracle& b, T x, T y, const char* cls, const char* path) {
  const f128 xq = static_cast<f128>(x);
  const f128 si = xq * a.f + a.o;
  const f128 ref = (si - b.o) / b.f;
  // every term and the result must stay inside the normal range of T, otherwise the case says nothing
  if (!in_safe_range<T>(si) || !in_safe_range<T>(ref) || !in_safe_range<T>(xq * a.f) ||
      (x != 0 && (fabsq(si) < ldexpq(1.0Q, Num<T>::emin + 1)))) {
    R.count("skipped_out_of_range");
    return;
  }
  R.eval();
  const bool affine = a.o != 0 || b.o != 0;
  // scale of the largest term of the affine expression, expressed in the output unit
  f128 scale = fabsq(ref);
  if (affine) {
    for (f128 t : {fabsq(xq * a.f), fabsq(a.o), fabsq(b.o), fabsq(si)}) {
      if (t / b.f > scale) scale = t / b.f;
    }
  }
  double err;
  if (y != y || std::isinf(static_cast<long double>(y))) {
    err = std::numeric_limits<double>::infinity();
  } else {
    const f128 e = fabsq(static_cast<f128>(y) - ref) / ulp_at<T>(scale);
    err = e > 1e300Q ? 1e300 : static_cast<double>(e);
  }
  const std::string where = std::string(path) + "_" + Num<T>::name;
  R.maxi("max_ulps_" + where, err);
  if (x == 0 && !affine) {
    if (!(y == 0 && std::signbit(y) == std::signbit(x))) {
      R.violation("C01|type=" + tname + "|from=" + from_id + "|to=" + to_id + "|" + Num<T>::name + "|zero",
                  J().s("path", path).num("x", x).num("y", y).str());
    }
  } else if (!(err <= kBoundUlps)) {
    R.violation("C01|type=" + tname + "|from=" + from_id + "|to=" + to_id + "|" + Num<T>::name,
                J().s("path", path).s("class", cls).num("x", x).num("got", y).q("exact", ref).d("error_ulps", err)
                    .s("factor_from", a.fdec).s("factor_to", b.fdec).str());
  }
  if (x != 0 && from_id != to_id) {
    R.nontrivial(hash_str(tname + "|" + from_id + "|" + to_id + "|" + Num<T>::name + "|" + cls));
    if (R.want_sample() && err > 0.5) {
      R.sample(J().s("type", tname).s("from", from_id).s("to", to_id).s("numeric_type", Num<T>::name).num("x", x)
                   .num("got", y).q("exact", ref).d("error_ulps", err).str());
    }
  }
}

template <typename U, typename T>
static void run_type_T(Reporter& R, const Args& A, const char* tname, uint64_t tindex) {
  auto oit = g_oracle.find(tname);
  if (oit == g_oracle.end()) {
    R.list("types_without_oracle", tname);
    return;
  }
  const auto& orc = oit->second;
  const auto& units = Enumerators<U>::get();
  const auto& to_map = PhQ::Internal::MapOfConversionsToStandard<U, T>;
  const auto& from_map = PhQ::Internal::MapOfConversionsFromStandard<U, T>;
  const int K = static_cast<int>(A.n("values", A.thorough() ? 600 : 64));
  uint64_t pair_index = 0;
  for (auto& pf : units) {
    for (auto& pt : units) {
      ++pair_index;
      if (!A.mine(tindex * 7919 + pair_index)) continue;
      auto a = orc.find(pf.first), b = orc.find(pt.first);
      if (a == orc.end() || b == orc.end()) {
        R.list("units_without_oracle", std::string(tname) + "::" + (a == orc.end() ? pf.second : pt.second));
        continue;
      }
      const U from = static_cast<U>(pf.first), to = static_cast<U>(pt.first);
      // a missing dispatch row is C08's finding; here it would be undefined behaviour, so skip and say so
      if ((from != PhQ::Standard<U> && to_map.count(from) == 0) || (to != PhQ::Standard<U> && from_map.count(to) == 0)) {
        R.list("pairs_skipped_missing_dispatch", std::string(tname) + "::" + pf.second + "->" + pt.second);
        continue;
      }
      Rng rng(mix(mix(A.seed, tindex), mix(pair_index, Num<T>::idx)));
      const auto values = make_values<T>(rng, K, A.thorough());
      const std::string key = std::string("C01|type=") + tname + "|from=" + pf.second + "|to=" + pt.second + "|" + Num<T>::name;
      R.crumb(key);
      guarded(R, key, [&] {
        for (auto& xv : values) {
          const T y = PhQ::Convert<U, T>(xv.first, from, to);
          judge<T>(R, tname, pf.second, pt.second, a->second, b->second, xv.first, y, xv.second, "runtime");
        }
        // magnitudes next to the ends of the range: the largest (smallest) of |x|, its SI image and the result sits
        // 2..6 binades inside the overflow (underflow) threshold, so nothing overflows in exact arithmetic
        if (a->second.o == 0 && b->second.o == 0) {
          const f128 fa = a->second.f, ratio = a->second.f / b->second.f;
          f128 big = 1, small = 1;
          for (f128 t : {fa, ratio}) {
            if (t > big) big = t;
            if (t < small) small = t;
          }
          for (int j = 2; j <= 6; j += 2) {
            const T xh = static_cast<T>(ldexpq(static_cast<f128>(rng.mantissa<T>()) / 2, Num<T>::emax - j) / big);
            const T xl = static_cast<T>(ldexpq(static_cast<f128>(rng.mantissa<T>()), Num<T>::emin + j) / small);
            for (T x : {xh, -xh}) judge<T>(R, tname, pf.second, pt.second, a->second, b->second, x, PhQ::Convert<U, T>(x, from, to), "near-overflow", "runtime");
            for (T x : {xl, -xl}) judge<T>(R, tname, pf.second, pt.second, a->second, b->second, x, PhQ::Convert<U, T>(x, from, to), "near-underflow", "runtime");
          }
        }
      });
      R.count(std::string("pairs_") + Num<T>::name);
    }
  }
}

// compile-time single steps for every declared unit
template <typename U, typename T>
static void run_static_T(Reporter& R, const Args& A, const char* tname, uint64_t tindex) {
  auto oit = g_oracle.find(tname);
  if (oit == g_oracle.end()) return;
  const auto& orc = oit->second;
  auto s = orc.find(static_cast<int>(PhQ::Standard<U>));
  if (s == orc.end()) return;
  const int K = static_cast<int>(A.n("values", A.thorough() ? 600 : 64));
  for_each_named<U>([&](auto tag) {
    constexpr U u = decltype(tag)::value;
    if (!A.mine(tindex * 131 + static_cast<uint64_t>(static_cast<int>(u)) + 17)) return;
    auto a = orc.find(static_cast<int>(u));
    if (a == orc.end()) return;
    const std::string id = Enumerators<U>::name(u);
    const std::string sid = Enumerators<U>::name(PhQ::Standard<U>);
    Rng rng(mix(mix(A.seed, tindex + 1000), mix(static_cast<uint64_t>(static_cast<int>(u)) + 300, Num<T>::idx)));
    const auto values = make_values<T>(rng, K, A.thorough());
    R.crumb(std::string("C01|type=") + tname + "|static|unit=" + id + "|" + Num<T>::name);
    for (auto& xv : values) {
      const T y1 = PhQ::ConvertStatically<U, u, PhQ::Standard<U>>(xv.first);
      judge<T>(R, tname, id, sid, a->second, s->second, xv.first, y1, xv.second, "static");
      const T y2 = PhQ::ConvertStatically<U, PhQ::Standard<U>, u>(xv.first);
      judge<T>(R, tname, sid, id, s->second, a->second, xv.first, y2, xv.second, "static");
    }
    R.count(std::string("static_units_") + Num<T>::name);
  });
}

void VERIF_THIS_PART(Reporter& R, const Args& A) {
#define X(U, I)                                                       \
  if constexpr (VERIF_IN_PART(I)) {                                   \
    run_type_T<PhQ::Unit::U, float>(R, A, #U, I);                     \
    run_type_T<PhQ::Unit::U, double>(R, A, #U, I);                    \
    run_type_T<PhQ::Unit::U, long double>(R, A, #U, I);               \
    run_static_T<PhQ::Unit::U, float>(R, A, #U, I);                   \
    run_static_T<PhQ::Unit::U, double>(R, A, #U, I);                  \
    run_static_T<PhQ::Unit::U, long double>(R, A, #U, I);             \
  }
  VERIF_UNIT_TYPES(X)
#undef X
}

#if VERIF_PART == 0
int main(int argc, char** argv) {
  Args A = parse_args(argc, argv);
  Reporter R(A.out);
  load_oracle(A.get("oracle"));
  if (g_oracle.empty()) {
    std::fprintf(stderr, "no oracle file\n");
    return 3;
  }
  verif_run_parts(R, A);
  return R.finish();
}
#endif
