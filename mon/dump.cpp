// Dump, as JSON, what the library itself reports about its enumerations, tables, unit systems and
// dimension sets.  Every look-up that would be undefined on a missing key goes through count()/find()
// first, so a missing entry is reported, not executed.  The python deciders of C06/C07/C08 consume it.
#include <iostream>
#include <sstream>

#if defined(DUMP_QUANT)
#include "allq.hpp"
#endif
#include "allu.hpp"
#include "common/reflect.hpp"
#include "common/traits.hpp"
#include "common/verif.hpp"

using namespace verif;

static std::string dims_json(const PhQ::Dimensions& d) {
  std::ostringstream o;
  o << "[" << int(d.Time().Value()) << "," << int(d.Length().Value()) << "," << int(d.Mass().Value()) << ","
    << int(d.ElectricCurrent().Value()) << "," << int(d.Temperature().Value()) << ","
    << int(d.SubstanceAmount().Value()) << "," << int(d.LuminousIntensity().Value()) << "]";
  return o.str();
}

template <typename E, typename = void> struct is_streamable : std::false_type {};
template <typename E>
struct is_streamable<E, std::void_t<decltype(std::declval<std::ostream&>() << std::declval<E>())>> : std::true_type {};

template <typename E>
static std::string enum_common(const char* type_name) {
  // enumerators, abbreviations, streamed forms, parse-back, spellings
  std::ostringstream o;
  o << "\"name\":\"" << type_name << "\",\"enumerators\":[";
  bool first = true;
  const auto& abbr = PhQ::Internal::Abbreviations<E>;
  for (auto& p : Enumerators<E>::get()) {
    const E e = static_cast<E>(p.first);
    o << (first ? "" : ",") << "{\"value\":" << p.first << ",\"id\":\"" << p.second << "\"";
    first = false;
    const bool has = abbr.count(e) == 1;
    o << ",\"has_abbreviation\":" << (has ? "true" : "false");
    if (has) {
      const std::string a{PhQ::Abbreviation(e)};
      o << ",\"abbreviation\":\"" << jesc(a) << "\"";
      if constexpr (is_streamable<E>::value) {
        std::ostringstream s;
        s << e;
        o << ",\"streamed\":\"" << jesc(s.str()) << "\"";
      } else {
        o << ",\"streamed\":null";
      }
      const std::optional<E> back = PhQ::ParseEnumeration<E>(a);
      if (back.has_value()) {
        o << ",\"parse_back\":" << static_cast<int>(back.value());
      } else {
        o << ",\"parse_back\":null";
      }
    }
    o << "}";
  }
  o << "],\"abbreviation_table_keys\":[";
  first = true;
  for (auto& kv : abbr) {
    o << (first ? "" : ",") << static_cast<int>(kv.first);
    first = false;
  }
  o << "],\"spellings\":[";
  first = true;
  for (auto& kv : PhQ::Internal::Spellings<E>) {
    const std::string sp{kv.first};
    const std::optional<E> parsed = PhQ::ParseEnumeration<E>(sp);
    o << (first ? "" : ",") << "{\"spelling\":\"" << jesc(sp) << "\",\"table\":" << static_cast<int>(kv.second)
      << ",\"parsed\":";
    if (parsed.has_value()) o << static_cast<int>(parsed.value());
    else o << "null";
    o << ",\"named\":" << (Enumerators<E>::named(kv.second) ? "true" : "false") << "}";
    first = false;
  }
  o << "]";
  return o.str();
}

template <typename U, typename T>
static std::string dispatch_counts() {
  std::ostringstream o;
  o << "{";
  bool first = true;
  for (auto& p : Enumerators<U>::get()) {
    const U u = static_cast<U>(p.first);
    const auto& to = PhQ::Internal::MapOfConversionsToStandard<U, T>;
    const auto& from = PhQ::Internal::MapOfConversionsFromStandard<U, T>;
    auto it = to.find(u);
    auto jf = from.find(u);
    const bool t_ok = it != to.end() && static_cast<bool>(it->second);
    const bool f_ok = jf != from.end() && static_cast<bool>(jf->second);
    o << (first ? "" : ",") << "\"" << p.first << "\":[" << (t_ok ? 1 : 0) << "," << (f_ok ? 1 : 0) << "]";
    first = false;
  }
  o << "}";
  return o.str();
}

template <typename U>
static void dump_unit_type(std::ostream& out, const char* name, bool& first_u) {
  out << (first_u ? "" : ",\n") << "{" << enum_common<U>(name);
  first_u = false;
  out << ",\"standard\":" << static_cast<int>(PhQ::Standard<U>);
  out << ",\"dimensions\":" << dims_json(PhQ::RelatedDimensions<U>);
  out << ",\"dimensions_print\":\"" << jesc(PhQ::RelatedDimensions<U>.Print()) << "\"";
  out << ",\"dispatch\":{\"float\":" << dispatch_counts<U, float>() << ",\"double\":" << dispatch_counts<U, double>()
      << ",\"long double\":" << dispatch_counts<U, long double>() << "}";
  out << ",\"consistent\":{";
  bool first = true;
  for (auto& s : Enumerators<PhQ::UnitSystem>::get()) {
    const PhQ::UnitSystem sys = static_cast<PhQ::UnitSystem>(s.first);
    out << (first ? "" : ",") << "\"" << s.first << "\":";
    first = false;
    if (PhQ::Internal::ConsistentUnits<U>.count(sys) == 1) {
      out << static_cast<int>(PhQ::ConsistentUnit<U>(sys));
    } else {
      out << "null";
    }
  }
  out << "},\"related_system\":{";
  first = true;
  for (auto& p : Enumerators<U>::get()) {
    const std::optional<PhQ::UnitSystem> rs = PhQ::RelatedUnitSystem(static_cast<U>(p.first));
    out << (first ? "" : ",") << "\"" << p.first << "\":";
    first = false;
    if (rs.has_value()) out << static_cast<int>(rs.value());
    else out << "null";
  }
  out << "},\"related_system_table_keys\":[";
  first = true;
  for (auto& kv : PhQ::Internal::RelatedUnitSystems<U>) {
    out << (first ? "" : ",") << static_cast<int>(kv.first);
    first = false;
  }
  out << "]}";
}

#if defined(DUMP_QUANT)
template <template <typename> class Q>
static void dump_quantity(std::ostream& out, const char* name, bool& first_q) {
  using QD = Q<double>;
  out << (first_q ? "" : ",\n") << "{\"name\":\"" << name << "\"";
  first_q = false;
  out << ",\"dimensions\":" << dims_json(QD::Dimensions());
  out << ",\"n\":" << n_of<QD>;
  out << ",\"sizeof\":[" << sizeof(Q<float>) << "," << sizeof(Q<double>) << "," << sizeof(Q<long double>) << "]";
  out << ",\"dims_same_across_types\":"
      << ((Q<float>::Dimensions() == QD::Dimensions() && Q<long double>::Dimensions() == QD::Dimensions()) ? "true"
                                                                                                         : "false");
  if constexpr (has_unit<QD>::value) {
    using U = unit_t<QD>;
    out << ",\"unit_standard\":" << static_cast<int>(QD::Unit());
    out << ",\"unit_type_dims\":" << dims_json(PhQ::RelatedDimensions<U>);
    out << ",\"unit_type_pretty\":\"" << jesc(std::string(pretty_enum<U, PhQ::Standard<U>>())) << "\"";
  } else {
    out << ",\"unit_type_pretty\":null";
  }
  out << "}";
}

#endif

// The program is split into translation units so that the build parallelises:
//   -DDUMP_PART=k -DDUMP_PARTS=n : unit types with index % n == k
//   -DDUMP_QUANT                 : the quantity types, UnitSystem and ConstitutiveModel::Type
//   -DDUMP_MAIN=n                : main() calling the n parts
#if defined(DUMP_PART)
#define CAT2(a, b) a##b
#define CAT(a, b) CAT2(a, b)
void CAT(dump_part_, DUMP_PART)(std::ostream& out, bool& first_u) {
#define X(U, I)                                                     \
  if constexpr ((I) % DUMP_PARTS == DUMP_PART) {                    \
    dump_unit_type<PhQ::Unit::U>(out, #U, first_u);                 \
  }
  VERIF_UNIT_TYPES(X)
#undef X
}
#elif defined(DUMP_QUANT)
void dump_rest(std::ostream& out) {
  out << "\"unit_system\":{" << enum_common<PhQ::UnitSystem>("UnitSystem")
      << ",\"standard\":" << static_cast<int>(PhQ::Standard<PhQ::UnitSystem>) << "},\n";
  out << "\"model_type\":{" << enum_common<PhQ::ConstitutiveModel::Type>("ConstitutiveModel::Type") << "},\n";
  out << "\"quantities\":[\n";
  bool first_q = true;
#define X(Q, I) dump_quantity<PhQ::Q>(out, #Q, first_q);
  VERIF_QUANTITIES(X)
#undef X
  out << "\n],\n\"dimensionless_print\":\"" << jesc(PhQ::Dimensionless.Print()) << "\"";
}
#endif
