// C02: all conversion entry points agree with the plain scalar conversion, component by component; a
// quantity read back in its unit is unchanged; converting a unit to itself is the identity; copying forms
// never modify their argument.  Oracle: PhQ::Convert on one scalar (tied to the truth by C01).
#include "allq.hpp"
#include "allu.hpp"
#include "common/parts.hpp"
#include "common/reflect.hpp"
#include "common/traits.hpp"

using namespace verif;

static const Args* g_args;

template <typename T>
static bool agree(T got, T want, long long& not_identical) {
  if (same_value_bits(got, want)) return true;
  ++not_identical;
  if (want != want || got != got) return false;
  // within one ulp of the scalar conversion
  return got == std::nextafter(want, got);
}

template <typename T, size_t N>
static std::array<T, N> distinct_values(Rng& rng) {
  std::array<T, N> a;
  for (size_t i = 0; i < N; ++i) a[i] = rng.logu<T>(-6, 6, true) * static_cast<T>(1 + i);
  return a;
}

template <typename U, typename T>
static bool unit_usable(U u) {
  return (u == PhQ::Standard<U> ||
          (PhQ::Internal::MapOfConversionsToStandard<U, T>.count(u) == 1 && PhQ::Internal::MapOfConversionsFromStandard<U, T>.count(u) == 1));
}

// ------------------------------------------------------------------------------------------------
// free functions of one unit type
// ------------------------------------------------------------------------------------------------
template <typename U, typename T, typename C, typename ToArr>
static bool check_container(Reporter& R, const std::string& key, const char* form, const C& in, U from, U to, ToArr&& to_vec,
                            long long& nid) {
  // copying form
  const std::vector<T> before = to_vec(in);
  const C out = PhQ::Convert(in, from, to);
  const std::vector<T> after = to_vec(in);
  const std::vector<T> got = to_vec(out);
  R.eval();
  bool unchanged = before.size() == after.size();
  for (size_t i = 0; unchanged && i < before.size(); ++i) unchanged = same_bits(before[i], after[i]);
  if (!unchanged) {
    R.violation(key + "|" + form + "|argument-modified", J().s("form", form).str());
    return false;
  }
  // in-place form
  C inplace = in;
  PhQ::ConvertInPlace(inplace, from, to);
  const std::vector<T> got2 = to_vec(inplace);
  if (got.size() != before.size() || got2.size() != before.size()) {
    R.violation(key + "|" + form + "|size", J().s("form", form).i("in", before.size()).i("out", got.size()).str());
    return false;
  }
  for (size_t i = 0; i < before.size(); ++i) {
    const T want = PhQ::Convert(before[i], from, to);
    if (!agree(got[i], want, nid) || !agree(got2[i], want, nid)) {
      R.violation(key + "|" + form, J().s("form", form).i("component", i).num("input", before[i]).num("copying", got[i])
                                         .num("in_place", got2[i]).num("scalar_convert", want).str());
      return false;
    }
  }
  return true;
}

template <typename U, typename T>
static void unit_type_runtime(Reporter& R, const char* tname, uint64_t tindex) {
  const auto& units = Enumerators<U>::get();
  const int K = static_cast<int>(g_args->n("values", g_args->thorough() ? 40 : 4));
  long long nid = 0;
  uint64_t pi = 0;
  for (auto& pf : units) {
    for (auto& pt : units) {
      ++pi;
      if (!g_args->mine(tindex * 977 + pi)) continue;
      const U from = static_cast<U>(pf.first), to = static_cast<U>(pt.first);
      if (!unit_usable<U, T>(from) || !unit_usable<U, T>(to)) {
        R.list("pairs_skipped_missing_dispatch", std::string(tname) + "::" + pf.second + "->" + pt.second);
        continue;
      }
      const std::string key = std::string("C02|unit-type=") + tname + "|from=" + pf.second + "|to=" + pt.second + "|" + Num<T>::name;
      Rng rng(mix(mix(g_args->seed, 0xC02), mix(tindex * 100000 + pi, Num<T>::idx)));
      R.crumb(key);
      guarded(R, key, [&] {
        for (int k = 0; k < K; ++k) {
          bool ok = true;
          auto arrv = [](const auto& a) { return std::vector<T>(a.begin(), a.end()); };
          ok = ok && check_container<U, T>(R, key, "array<1>", distinct_values<T, 1>(rng), from, to, arrv, nid);
          ok = ok && check_container<U, T>(R, key, "array<2>", distinct_values<T, 2>(rng), from, to, arrv, nid);
          ok = ok && check_container<U, T>(R, key, "array<3>", distinct_values<T, 3>(rng), from, to, arrv, nid);
          ok = ok && check_container<U, T>(R, key, "array<6>", distinct_values<T, 6>(rng), from, to, arrv, nid);
          ok = ok && check_container<U, T>(R, key, "array<9>", distinct_values<T, 9>(rng), from, to, arrv, nid);
          ok = ok && check_container<U, T>(R, key, "array<17>", distinct_values<T, 17>(rng), from, to, arrv, nid);
          for (size_t len : {size_t(0), size_t(1), size_t(5), size_t(64)}) {
            std::vector<T> v(len);
            for (size_t i = 0; i < len; ++i) v[i] = rng.logu<T>(-6, 6, true) * static_cast<T>(1 + i % 7);
            ok = ok && check_container<U, T>(R, key, "vector", v, from, to, [](const std::vector<T>& x) { return x; }, nid);
          }
          auto shp = [](const auto& s) {
            const auto a = to_arr(s);
            return std::vector<T>(a.begin(), a.end());
          };
          ok = ok && check_container<U, T>(R, key, "PlanarVector", FromArr<PhQ::PlanarVector<T>>::make(distinct_values<T, 2>(rng)), from, to, shp, nid);
          ok = ok && check_container<U, T>(R, key, "Vector", FromArr<PhQ::Vector<T>>::make(distinct_values<T, 3>(rng)), from, to, shp, nid);
          ok = ok && check_container<U, T>(R, key, "SymmetricDyad", FromArr<PhQ::SymmetricDyad<T>>::make(distinct_values<T, 6>(rng)), from, to, shp, nid);
          ok = ok && check_container<U, T>(R, key, "Dyad", FromArr<PhQ::Dyad<T>>::make(distinct_values<T, 9>(rng)), from, to, shp, nid);
          // scalar in-place
          {
            const T x = rng.logu<T>(-6, 6, true);
            T y = x;
            PhQ::ConvertInPlace(y, from, to);
            R.eval();
            if (!agree(y, PhQ::Convert(x, from, to), nid)) {
              R.violation(key + "|scalar-in-place", J().num("x", x).num("in_place", y).num("copying", PhQ::Convert(x, from, to)).str());
              ok = false;
            }
            // a unit to itself is the identity: exact for the standard unit, to rounding otherwise
            if (from == to) {
              const T z = PhQ::Convert(x, from, from);
              R.eval();
              const bool exact_expected = from == PhQ::Standard<U>;
              const double e = ulps<T>(z, static_cast<f128>(x));
              R.maxi(std::string("self_conversion_ulps_") + Num<T>::name, e);
              // the affine temperature scales cancel against their offset: judged at the scale of the offset (C01 bound)
              const bool affine = std::fabs(static_cast<double>(PhQ::Convert(static_cast<T>(0), from, PhQ::Standard<U>))) > 0;
              if ((exact_expected && !same_value_bits(z, x)) || (!exact_expected && !affine && !(e <= 2.0))) {
                R.violation(key + "|self-conversion", J().num("x", x).num("converted", z).d("ulps", e).str());
                ok = false;
              }
            }
          }
          if (!ok) return;
        }
        R.nontrivial(hash_str(key));
      });
      R.count(std::string("runtime_pairs_") + Num<T>::name);
    }
  }
  R.count("not_bit_identical_but_within_one_ulp", nid);
}

// the next declared enumerator after V (wrapping around)
template <typename E, int V, int Tries = 0, bool Found = false> struct NextNamed;
template <typename E, int V, int Tries> struct NextNamed<E, V, Tries, false> {
  static constexpr int cand = V >= 127 ? -128 : V + 1;
  static constexpr int value = NextNamed<E, cand, Tries + 1, is_named<E, cand> || (Tries > 256)>::value;
};
template <typename E, int V, int Tries> struct NextNamed<E, V, Tries, true> { static constexpr int value = V; };

// compile-time conversions: every unit to/from the standard unit, itself and its successor (scalar), and the container forms
template <typename U, typename T>
static void unit_type_static(Reporter& R, const char* tname, uint64_t tindex) {
  long long nid = 0;
  Rng rng(mix(mix(g_args->seed, 0x57A7), mix(tindex, Num<T>::idx)));
  const std::string base = std::string("C02|unit-type=") + tname + "|static";
  for_each_named<U>([&](auto ftag) {
    constexpr U from = decltype(ftag)::value;
    if (!g_args->mine(tindex * 31 + static_cast<uint64_t>(static_cast<int>(from)))) return;
    if (!unit_usable<U, T>(from)) return;
    const std::string fid = Enumerators<U>::name(from);
    R.crumb(base + "|from=" + fid + "|" + Num<T>::name);
    auto one = [&](auto ttag) {
      constexpr U to = decltype(ttag)::value;
      if (!unit_usable<U, T>(to)) return;
      const T x = rng.logu<T>(-6, 6, true);
      const T got = PhQ::ConvertStatically<U, from, to>(x);
      const T rev = PhQ::ConvertStatically<U, to, from>(x);
      R.eval(2);
      if (!agree(got, PhQ::Convert(x, from, to), nid) || !agree(rev, PhQ::Convert(x, to, from), nid)) {
        R.violation(base + "|from=" + fid + "|to=" + Enumerators<U>::name(to) + "|" + Num<T>::name,
                    J().num("x", x).num("static", got).num("runtime", PhQ::Convert(x, from, to)).num("static_reverse", rev)
                        .num("runtime_reverse", PhQ::Convert(x, to, from)).str());
      }
      R.count(std::string("static_pairs_") + Num<T>::name, 2);
    };
    // every unit against the standard unit, itself, and the next declared unit (all-pairs would add nothing:
    // a compile-time conversion is the composition of the two single steps, and costs minutes of compile time)
    one(std::integral_constant<U, PhQ::Standard<U>>{});
    one(std::integral_constant<U, from>{});
    one(std::integral_constant<U, static_cast<U>(NextNamed<U, static_cast<int>(from)>::value)>{});
    // container forms: from -> standard, standard -> from, and from -> the next declared unit (two non-standard
    // units: the two single steps do not commute for the affine temperature scales)
    constexpr U S = PhQ::Standard<U>;
    constexpr U NX = static_cast<U>(NextNamed<U, static_cast<int>(from)>::value);
    const bool nx_ok = unit_usable<U, T>(NX);
    auto chk = [&](const char* form, const auto& in, const auto& out1, const auto& out2, const auto& out3) {
      const auto a = in, o1 = out1, o2 = out2, o3 = out3;
      R.eval();
      for (size_t i = 0; i < a.size(); ++i) {
        if (!agree(o1[i], PhQ::Convert(a[i], from, S), nid) || !agree(o2[i], PhQ::Convert(a[i], S, from), nid) ||
            (nx_ok && !agree(o3[i], PhQ::Convert(a[i], from, NX), nid))) {
          R.violation(base + "|" + form + "|unit=" + fid + "|" + Num<T>::name,
                      J().s("form", form).i("component", i).num("input", a[i]).num("to_standard", o1[i]).num("from_standard", o2[i])
                          .num("to_next_unit", o3[i]).s("next_unit", Enumerators<U>::name(NX)).str());
          return;
        }
      }
    };
    {
      const auto a = distinct_values<T, 5>(rng);
      chk("array", a, PhQ::ConvertStatically<U, from, S>(a), PhQ::ConvertStatically<U, S, from>(a), PhQ::ConvertStatically<U, from, NX>(a));
    }
    {
      const auto a = distinct_values<T, 2>(rng);
      const auto v = FromArr<PhQ::PlanarVector<T>>::make(a);
      chk("PlanarVector", a, to_arr(PhQ::ConvertStatically<U, from, S>(v)), to_arr(PhQ::ConvertStatically<U, S, from>(v)),
          to_arr(PhQ::ConvertStatically<U, from, NX>(v)));
    }
    {
      const auto a = distinct_values<T, 3>(rng);
      const auto v = FromArr<PhQ::Vector<T>>::make(a);
      chk("Vector", a, to_arr(PhQ::ConvertStatically<U, from, S>(v)), to_arr(PhQ::ConvertStatically<U, S, from>(v)),
          to_arr(PhQ::ConvertStatically<U, from, NX>(v)));
    }
    {
      const auto a = distinct_values<T, 6>(rng);
      const auto v = FromArr<PhQ::SymmetricDyad<T>>::make(a);
      chk("SymmetricDyad", a, to_arr(PhQ::ConvertStatically<U, from, S>(v)), to_arr(PhQ::ConvertStatically<U, S, from>(v)),
          to_arr(PhQ::ConvertStatically<U, from, NX>(v)));
    }
    {
      const auto a = distinct_values<T, 9>(rng);
      const auto v = FromArr<PhQ::Dyad<T>>::make(a);
      chk("Dyad", a, to_arr(PhQ::ConvertStatically<U, from, S>(v)), to_arr(PhQ::ConvertStatically<U, S, from>(v)),
          to_arr(PhQ::ConvertStatically<U, from, NX>(v)));
    }
    R.nontrivial(hash_str(base + fid + Num<T>::name));
  });
  R.count("not_bit_identical_but_within_one_ulp", nid);
}

// ------------------------------------------------------------------------------------------------
// quantity-level entry points
// ------------------------------------------------------------------------------------------------
template <typename Q, typename = void> struct has_create_scalar : std::false_type {};

template <template <typename> class QT, typename T>
static void quantity_entry(Reporter& R, const char* name, uint64_t qindex) {
  using Q = QT<T>;
  if constexpr (has_unit<Q>::value) {
    using U = unit_t<Q>;
    using V = value_t<Q>;
    constexpr size_t N = n_of<Q>;
    constexpr U S = PhQ::Standard<U>;
    long long nid = 0;
    const auto& units = Enumerators<U>::get();
    const int K = static_cast<int>(g_args->n("values", g_args->thorough() ? 40 : 4));
    Rng rng(mix(mix(g_args->seed, 0xC02E), mix(qindex, Num<T>::idx)));
    const std::string base = std::string("C02|quantity=") + name + "|" + Num<T>::name;
    R.crumb(base);
    guarded(R, base, [&] {
      for (auto& pu : units) {
        const U u = static_cast<U>(pu.first);
        if (!unit_usable<U, T>(u)) continue;
        for (int k = 0; k < K; ++k) {
          const auto a = distinct_values<T, N>(rng);
          const Q q(FromArr<V>::make(a), u);
          const auto stored = to_si(q);
          R.eval();
          if (R.want_sample(qindex + static_cast<uint64_t>(pu.first), 53)) {
            R.sample(J().s("quantity", name).s("numeric_type", Num<T>::name).s("unit", pu.second).raw("given", jarr(a)).raw("stored_SI", jarr(stored))
                         .raw("read_back_in_unit", jarr(to_arr(q.Value(u)))).str());
          }
          // converted once, on construction
          for (size_t i = 0; i < N; ++i) {
            if (!agree(stored[i], PhQ::Convert(a[i], u, S), nid)) {
              R.violation(base + "|construct|unit=" + pu.second, J().i("component", i).num("given", a[i]).num("stored", stored[i])
                                                                     .num("scalar_convert", PhQ::Convert(a[i], u, S)).str());
              return;
            }
          }
          // the array and component-wise spellings of the constructor must store what the shape spelling stores
          if constexpr (N > 1) {
            auto same_as_shape = [&](const Q& other, const char* how) {
              const auto so = to_si(other);
              R.eval();
              for (size_t i = 0; i < N; ++i) {
                if (!agree(so[i], stored[i], nid)) {
                  R.violation(base + "|construct(" + how + ")|unit=" + pu.second, J().i("component", i).num("given", a[i])
                                                                                       .num("stored", so[i]).num("shape_constructor_stores", stored[i]).str());
                  return false;
                }
              }
              R.count(std::string("constructor_spellings_") + how);
              return true;
            };
            if constexpr (std::is_constructible_v<Q, const std::array<T, N>&, U>) {
              if (!same_as_shape(Q(a, u), "array")) return;
            }
            if constexpr (N == 2 && std::is_constructible_v<Q, T, T, U>) {
              if (!same_as_shape(Q(a[0], a[1], u), "components")) return;
            }
            if constexpr (N == 3 && std::is_constructible_v<Q, T, T, T, U>) {
              if (!same_as_shape(Q(a[0], a[1], a[2], u), "components")) return;
            }
            if constexpr (N == 6 && std::is_constructible_v<Q, T, T, T, T, T, T, U>) {
              if (!same_as_shape(Q(a[0], a[1], a[2], a[3], a[4], a[5], u), "components")) return;
            }
            if constexpr (N == 9 && std::is_constructible_v<Q, T, T, T, T, T, T, T, T, T, U>) {
              if (!same_as_shape(Q(a[0], a[1], a[2], a[3], a[4], a[5], a[6], a[7], a[8], u), "components")) return;
            }
          }
          // read back in the same unit: the original number up to rounding (two table steps)
          const auto back = to_arr(q.Value(u));
          for (size_t i = 0; i < N; ++i) {
            const T want = PhQ::Convert(PhQ::Convert(a[i], u, S), S, u);
            if (!agree(back[i], want, nid)) {
              R.violation(base + "|read-back|unit=" + pu.second, J().i("component", i).num("given", a[i]).num("read_back", back[i]).str());
              return;
            }
            const double scale_ulps = ulps<T>(back[i], static_cast<f128>(a[i]));
            const bool affine = std::fabs(static_cast<double>(PhQ::Convert(static_cast<T>(0), u, S))) > 0;
            if (!affine) {
              R.maxi(std::string("read_back_ulps_") + Num<T>::name, scale_ulps);
              if (!(scale_ulps <= 8.0)) {
                R.violation(base + "|read-back-differs|unit=" + pu.second, J().num("given", a[i]).num("read_back", back[i]).d("ulps", scale_ulps).str());
                return;
              }
            }
          }
          // value in every other unit
          for (auto& pv : units) {
            const U v = static_cast<U>(pv.first);
            if (!unit_usable<U, T>(v)) continue;
            const auto out = to_arr(q.Value(v));
            R.eval();
            for (size_t i = 0; i < N; ++i) {
              if (!agree(out[i], PhQ::Convert(stored[i], S, v), nid)) {
                R.violation(base + "|Value(unit)|unit=" + pv.second, J().i("component", i).num("stored", stored[i]).num("value_in_unit", out[i])
                                                                         .num("scalar_convert", PhQ::Convert(stored[i], S, v)).str());
                return;
              }
            }
          }
        }
        R.nontrivial(hash_str(base + pu.second));
      }
      // compile-time accessors and creation for every declared unit
      const auto a = distinct_values<T, N>(rng);
      const Q q0 = from_si<Q>(a);
      const auto st0 = to_si(q0);
      for_each_named<U>([&](auto tag) {
        constexpr U u = decltype(tag)::value;
        if (!unit_usable<U, T>(u)) return;
        const auto sv = to_arr(q0.template StaticValue<u>());
        R.eval();
        for (size_t i = 0; i < N; ++i) {
          if (!agree(sv[i], PhQ::Convert(st0[i], S, u), nid)) {
            R.violation(base + "|StaticValue|unit=" + Enumerators<U>::name(u), J().i("component", i).num("stored", st0[i]).num("static_value", sv[i]).str());
            return;
          }
        }
        // Create<u>(components...) must equal Q(value, u)
        const Q viactor(FromArr<V>::make(a), u);
        Q created = viactor;
        bool have = false;
        if constexpr (N == 1) { created = Q::template Create<u>(a[0]); have = true; }
        else if constexpr (N == 2) { created = Q::template Create<u>(a[0], a[1]); have = true; }
        else if constexpr (N == 3) { created = Q::template Create<u>(a[0], a[1], a[2]); have = true; }
        else if constexpr (N == 6) { created = Q::template Create<u>(a[0], a[1], a[2], a[3], a[4], a[5]); have = true; }
        else if constexpr (N == 9) { created = Q::template Create<u>(a[0], a[1], a[2], a[3], a[4], a[5], a[6], a[7], a[8]); have = true; }
        if (have) {
          const auto c = to_si(created), w = to_si(viactor);
          R.eval();
          for (size_t i = 0; i < N; ++i) {
            if (!agree(c[i], w[i], nid)) {
              R.violation(base + "|Create|unit=" + Enumerators<U>::name(u), J().i("component", i).num("given", a[i]).num("created", c[i]).num("constructed", w[i]).str());
              return;
            }
          }
          // the array / shape overloads of Create, where the type offers them
          if constexpr (N > 1) {
            const auto c2 = to_si(Q::template Create<u>(a));
            const auto c3 = to_si(Q::template Create<u>(FromArr<V>::make(a)));
            for (size_t i = 0; i < N; ++i) {
              if (!agree(c2[i], w[i], nid) || !agree(c3[i], w[i], nid)) {
                R.violation(base + "|Create(array/shape)|unit=" + Enumerators<U>::name(u), J().i("component", i).str());
                return;
              }
            }
          }
        }
        R.count(std::string("static_quantity_units_") + Num<T>::name);
      });
    });
    R.count("not_bit_identical_but_within_one_ulp", nid);
    R.count(std::string("quantity_types_") + Num<T>::name);
  } else {
    R.count(std::string("dimensionless_types_") + Num<T>::name);
  }
}

void VERIF_THIS_PART(Reporter& R, const Args& A) {
  g_args = &A;
#define X(U, I)                                                     \
  if constexpr (VERIF_IN_PART(I)) {                                 \
    unit_type_runtime<PhQ::Unit::U, float>(R, #U, I);               \
    unit_type_runtime<PhQ::Unit::U, double>(R, #U, I);              \
    unit_type_runtime<PhQ::Unit::U, long double>(R, #U, I);         \
    unit_type_static<PhQ::Unit::U, float>(R, #U, I);                \
    unit_type_static<PhQ::Unit::U, double>(R, #U, I);               \
    unit_type_static<PhQ::Unit::U, long double>(R, #U, I);          \
  }
  VERIF_UNIT_TYPES(X)
#undef X
#define X(Q, I)                                                     \
  if constexpr (VERIF_IN_PART(I + 5)) {                             \
    if (A.mine(I)) {                                                \
      quantity_entry<PhQ::Q, float>(R, #Q, I);                      \
      quantity_entry<PhQ::Q, double>(R, #Q, I);                     \
      quantity_entry<PhQ::Q, long double>(R, #Q, I);                \
    }                                                               \
  }
  VERIF_QUANTITIES(X)
#undef X
}

#if VERIF_PART == 0
int main(int argc, char** argv) {
  Args A = parse_args(argc, argv);
  Reporter R(A.out);
  verif_run_parts(R, A);
  return R.finish();
}
#endif
