// C10: directions are unit vectors; magnitude times direction rebuilds the vector.
//
// Events.  (a) every construction path of PhQ::Direction / PhQ::PlanarDirection that the headers declare:
// components, std::array, Vector / PlanarVector, the three Set(...) overloads, Vector::Direction() /
// PlanarVector::PlanarDirection(), the converting constructor from another numeric type, 2-D <-> 3-D conversion,
// Cross of two directions, the default constructor and Zero(), and -- in the quantity parts -- Direction(const Q&)
// and Q::Direction() for the 9 + 8 vector quantities.  (b) for every vector quantity: Magnitude(), x()/y()/z(),
// Magnitude()*Direction(), Direction()*Magnitude(), Q(magnitude, direction), Q(x(), y(), z()).
//
// Oracle (binary128, computed from the rounded inputs the library received, nothing from the code under test):
//   zero input            => every slot of the direction is +0 bit for bit
//   |v|^2 in [2^(emin+8), 2^(emax-8)] (exact) => each slot within 4 ulps of v_i/|v| (the algorithm's a-priori bound is
//                            3.5 u relative = at most 3.5 ulps), | |d| - 1 | <= 4 ulps of T at 1, |d x v| / |v| <= 4 eps_T,
//                            d.v / |v| >= 1 - 4 eps_T
//   2^k v (exact)         => bit-identical direction, provided no component's square is below the normal range of T in
//                            either scale (otherwise counted and shown, not judged);
//   c v (rounded, c > 0)  => within 8 ulps + the exact change of v/|v|
//   magnitude             => within 3 ulps of the binary128 Euclidean norm (a-priori 2.5 u), +0 for the zero vector
//   recomposition         => every slot within 4 ulps of T at the scale of |v|
// Inputs outside the range are counted as skipped, never judged.
#include "common/parts.hpp"

#include "PhQ/Direction.hpp"
#include "PhQ/PlanarDirection.hpp"

// Work units: 0..2 = the paths that need Direction.hpp only, one unit per numeric type; 3 + 3*q + t = vector
// quantity q in numeric type t.  Unit U is compiled into part U % VERIF_PARTS.
#define C10_UNIT_HERE(U) (((U) % VERIF_PARTS) == VERIF_PART)
#if 1
#include "PhQ/Acceleration.hpp"
#include "PhQ/Displacement.hpp"
#include "PhQ/Force.hpp"
#include "PhQ/HeatFlux.hpp"
#include "PhQ/PlanarAcceleration.hpp"
#include "PhQ/PlanarDisplacement.hpp"
#include "PhQ/PlanarForce.hpp"
#include "PhQ/PlanarHeatFlux.hpp"
#include "PhQ/PlanarPosition.hpp"
#include "PhQ/PlanarTemperatureGradient.hpp"
#include "PhQ/PlanarTraction.hpp"
#include "PhQ/PlanarVelocity.hpp"
#include "PhQ/Position.hpp"
#include "PhQ/TemperatureGradient.hpp"
#include "PhQ/Traction.hpp"
#include "PhQ/VectorArea.hpp"
#include "PhQ/Velocity.hpp"
#define C10_HAVE_QUANTITIES 1
#endif

#include "common/traits.hpp"

using namespace verif;

namespace {

template <typename T, size_t N>
using Arr = std::array<T, N>;

template <typename T>
inline f128 eps_q() { return ldexpq(1.0Q, -(Num<T>::p - 1)); }  // one ulp of T at 1.0 (= 2u)

template <typename T>
inline double in_eps(f128 x) {
  if (!(x == x)) return std::numeric_limits<double>::infinity();
  const f128 r = fabsq(x) / eps_q<T>();
  return r > 1e300Q ? 1e300 : static_cast<double>(r);
}

template <size_t N>
inline std::string jq(const std::array<f128, N>& a) {
  std::string o = "[";
  for (size_t i = 0; i < N; ++i) o += (i ? ",\"" : "\"") + q2s(a[i]) + "\"";
  return o + "]";
}

template <typename X>
inline std::string type_name() {
  const std::string s = __PRETTY_FUNCTION__;
  auto p = s.find("X = ");
  if (p == std::string::npos) return s;
  p += 4;
  const auto e = s.find_first_of(";]", p);
  return s.substr(p, e - p);
}

template <typename T> inline Arr<T, 3> arr_of(const PhQ::Vector<T>& v) { return {v.x(), v.y(), v.z()}; }
template <typename T> inline Arr<T, 2> arr_of(const PhQ::PlanarVector<T>& v) { return {v.x(), v.y()}; }

template <typename T, size_t N> struct Kind;
template <typename T> struct Kind<T, 3> {
  using Vec = PhQ::Vector<T>;
  using Dir = PhQ::Direction<T>;
  static constexpr const char* dir = "Direction";
  static constexpr const char* vec = "Vector";
  static Vec make(const Arr<T, 3>& a) { return Vec(a[0], a[1], a[2]); }
};
template <typename T> struct Kind<T, 2> {
  using Vec = PhQ::PlanarVector<T>;
  using Dir = PhQ::PlanarDirection<T>;
  static constexpr const char* dir = "PlanarDirection";
  static constexpr const char* vec = "PlanarVector";
  static Vec make(const Arr<T, 2>& a) { return Vec(a[0], a[1]); }
};

// ------------------------------------------------------------------------------------------------
// inputs
// ------------------------------------------------------------------------------------------------
template <typename T> constexpr int k_lo() { return (Num<T>::emin + 8) / 2 + 1; }  // |v| >= 2^k_lo  => |v|^2 >= 2^(emin+8)
template <typename T> constexpr int k_hi() { return (Num<T>::emax - 8) / 2 - 2; }  // |v| < 4*2^k_hi => |v|^2 <  2^(emax-8)

template <typename T, size_t N>
struct Case {
  Arr<T, N> v;
  const char* cls;
};

static const int kPyth3[][3] = {{3, 4, 0}, {1, 2, 2}, {2, 3, 6}, {4, 4, 7}, {1, 4, 8}, {5, 12, 0}, {2, 10, 11}, {0, 8, 15}};
static const int kPyth2[][2] = {{3, 4}, {5, 12}, {8, 15}, {7, 24}, {20, 21}, {1, 1}, {1, 2}, {0, 7}};

template <typename T>
inline T signed_zero(Rng& g) { return g.coin() ? static_cast<T>(0) : -static_cast<T>(0); }

template <typename T>
inline T rnd_sign(Rng& g, T x) { return g.coin() ? -x : x; }

constexpr int kNumClasses = 16;

template <typename T, size_t N>
Case<T, N> gen_case(Rng& g, uint64_t index) {
  Case<T, N> c;
  const int lo = k_lo<T>(), hi = k_hi<T>();
  const int cls = static_cast<int>(index % kNumClasses);
  auto base = [&](int spread) {  // full random mantissas, component exponents in [-spread, 0] (one of them 0), random signs
    const size_t top = g.below(N);
    for (size_t i = 0; i < N; ++i) c.v[i] = rnd_sign(g, std::ldexp(g.mantissa<T>(), i == top ? 0 : -g.range(0, spread)));
  };
  auto scale = [&](int k) {
    for (auto& x : c.v) x = std::ldexp(x, k);
  };
  switch (cls) {
    case 0: case 1: case 2:
      c.cls = "random-200-binades";
      base(3);
      scale(g.range(std::max(lo, -100), std::min(hi, 100)));
      break;
    case 3: case 4:
      c.cls = "random-whole-range";
      base(3);
      scale(g.range(lo, hi));
      break;
    case 5: {
      c.cls = "axis-aligned";
      for (auto& x : c.v) x = signed_zero<T>(g);
      const T m = g.coin() ? g.mantissa<T>() : static_cast<T>(1);
      c.v[g.below(N)] = rnd_sign(g, std::ldexp(m, g.range(lo, hi)));
      break;
    }
    case 6: case 7: {
      c.cls = "one-dominant-component";  // ratios 2^1 .. 2^50
      const int k = g.range(lo, hi);
      const size_t d = g.below(N);
      for (size_t i = 0; i < N; ++i) {
        const int r = i == d ? 0 : (g.coin() ? g.range(1, 50) : g.range(Num<T>::p / 2 - 3, Num<T>::p + 3));
        c.v[i] = rnd_sign(g, std::ldexp(g.mantissa<T>(), k - r));
      }
      break;
    }
    case 8: {
      c.cls = "signed-zeros-in-some-slots";
      base(3);
      scale(g.range(lo, hi));
      const size_t nz = 1 + g.below(N - 1);
      for (size_t j = 0; j < nz; ++j) c.v[g.below(N)] = signed_zero<T>(g);
      if (c.v == Arr<T, N>{}) c.v[0] = static_cast<T>(1);
      break;
    }
    case 9: {
      c.cls = "small-integers";
      const uint64_t pick = g.below(8);
      for (size_t i = 0; i < N; ++i) {
        const int a = N == 3 ? kPyth3[pick][i] : kPyth2[pick][i];
        c.v[i] = a == 0 ? signed_zero<T>(g) : rnd_sign(g, static_cast<T>(a));
      }
      if (g.coin()) std::swap(c.v[0], c.v[N - 1]);
      scale(g.range(std::max(lo, -100), std::min(hi - 4, 100)));
      break;
    }
    case 10: {
      c.cls = "nearly-equal-components";
      const T a = std::ldexp(g.mantissa<T>(), g.range(lo, hi));
      for (auto& x : c.v) {
        T y = a;
        const int steps = g.range(0, 3);
        for (int s = 0; s < steps; ++s) y = std::nextafter(y, std::numeric_limits<T>::infinity());
        x = rnd_sign(g, y);
      }
      break;
    }
    case 11: {
      c.cls = "nearly-axis-aligned";  // off-axis part at the rounding level of the dominant one
      const int k = g.range(lo, hi);
      const size_t d = g.below(N);
      for (size_t i = 0; i < N; ++i) {
        const int r = i == d ? 0 : g.range(Num<T>::p - 4, Num<T>::p + 4);
        c.v[i] = rnd_sign(g, std::ldexp(g.coin() ? g.mantissa<T>() : static_cast<T>(1), k - r));
      }
      break;
    }
    case 12: {
      // squared length just inside the lower end of the range; the squares of the small components are subnormal
      // or underflow to zero although the squared length does not
      c.cls = "low-edge-small-components";
      const size_t d = g.below(N);
      for (size_t i = 0; i < N; ++i) {
        if (i == d) {
          c.v[i] = rnd_sign(g, std::ldexp(g.mantissa<T>(), (Num<T>::emin + 8) / 2 + g.range(0, 2)));
        } else {
          c.v[i] = rnd_sign(g, std::ldexp(g.mantissa<T>(), Num<T>::emin / 2 - g.range(-2, Num<T>::p / 2 + 8)));
        }
      }
      break;
    }
    case 13: {
      c.cls = "high-edge";
      base(2);
      scale(hi);
      break;
    }
    case 14: {
      // legitimate by the property text (any finite vector): components down to the subnormal range
      c.cls = "extreme-ratio";
      const int k = g.range(lo, hi);
      const size_t d = g.below(N);
      for (size_t i = 0; i < N; ++i) {
        if (i == d) {
          c.v[i] = rnd_sign(g, std::ldexp(g.mantissa<T>(), k));
        } else {
          const int e = g.range(Num<T>::emin - Num<T>::p + 2, k - 50);
          c.v[i] = rnd_sign(g, std::ldexp(g.mantissa<T>(), std::min(e, k)));
        }
      }
      break;
    }
    default: {
      if (index % (kNumClasses * 4) == static_cast<uint64_t>(cls)) {
        c.cls = "zero-vector";
        for (auto& x : c.v) x = signed_zero<T>(g);
      } else {
        c.cls = "powers-of-two";
        for (auto& x : c.v) x = rnd_sign(g, std::ldexp(static_cast<T>(1), -g.range(0, 6)));
        scale(g.range(lo, hi));
      }
      break;
    }
  }
  return c;
}

// ------------------------------------------------------------------------------------------------
// reference
// ------------------------------------------------------------------------------------------------
template <typename T, size_t N>
struct Ref {
  bool zero = false;       // every component is +-0
  bool in_range = false;   // exact squared length inside [2^(emin+8), 2^(emax-8)]
  bool sq_under = false;   // some non-zero component's exact square is below the normal range of T
  f128 len = 0;
  std::array<f128, N> unit{};
};

template <typename T, size_t N>
Ref<T, N> reference(const Arr<T, N>& v) {
  Ref<T, N> r;
  f128 m2 = 0;
  const f128 tiny = ldexpq(1.0Q, Num<T>::emin);
  for (size_t i = 0; i < N; ++i) {
    const f128 x = static_cast<f128>(v[i]);
    m2 += x * x;
    if (x != 0 && x * x < tiny) r.sq_under = true;
  }
  if (m2 == 0) {
    r.zero = true;
    return r;
  }
  r.in_range = m2 >= ldexpq(1.0Q, Num<T>::emin + 8) && m2 <= ldexpq(1.0Q, Num<T>::emax - 8);
  r.len = sqrtq(m2);
  for (size_t i = 0; i < N; ++i) r.unit[i] = static_cast<f128>(v[i]) / r.len;
  return r;
}

// What one construction produced: the vector the library received, the stored direction, Magnitude() as reported.
template <typename T, size_t N>
struct Built {
  Arr<T, N> in;
  Arr<T, N> out;
  T reported;
};

template <typename T, size_t N, typename D>
Built<T, N> built(const Arr<T, N>& in, const D& d) {
  return Built<T, N>{in, arr_of(d.Value()), d.Magnitude()};
}

struct Ctx {
  Reporter& R;
  const Args& A;
};

inline std::string vkey(const std::string& path, const std::string& what, const char* tname) {
  return "C10|path=" + path + "|" + what + "|" + tname;
}

// Judge one direction against the vector it was built from.  Returns false if the input was out of range.
template <typename T, size_t N>
bool judge_direction(Reporter& R, const std::string& path, const char* cls, const Built<T, N>& b, const Ref<T, N>& ref) {
  const char* tn = Num<T>::name;
  auto detail = [&](double err) {
    return J().s("class", cls).raw("input", jarr(b.in)).raw("direction", jarr(b.out)).raw("exact", jq(ref.unit))
        .q("exact_length_of_input", ref.len).num("reported_magnitude", b.reported).d("error", err).str();
  };
  if (ref.zero) {
    R.eval(N + 1);
    bool ok = true;
    for (size_t i = 0; i < N; ++i) ok = ok && same_bits(b.out[i], static_cast<T>(0));
    if (!ok) R.violation(vkey(path, "zero-vector", tn), detail(0));
    if (!same_bits(b.reported, static_cast<T>(0))) R.violation(vkey(path, "zero-vector|reported-magnitude", tn), detail(0));
    R.count("zero_vectors_" + std::string(tn));
    return true;
  }
  if (!ref.in_range) {
    R.count("skipped_squared_length_out_of_range");
    return false;
  }
  // components
  for (size_t i = 0; i < N; ++i) {
    const double e = ulps<T>(b.out[i], ref.unit[i]);
    R.maxi(std::string("max_component_error_ulps_") + tn, e);
    if (!(e <= 4.0)) R.violation(vkey(path, "component|slot=" + std::to_string(i), tn), detail(e));
    if (b.in[i] == 0 && !(b.out[i] == 0)) R.violation(vkey(path, "zero-component|slot=" + std::to_string(i), tn), detail(e));
  }
  // unit length, from the stored components
  f128 l2 = 0;
  std::array<f128, N> d{};
  for (size_t i = 0; i < N; ++i) {
    d[i] = static_cast<f128>(b.out[i]);
    l2 += d[i] * d[i];
  }
  const double ul = in_eps<T>(sqrtq(l2) - 1.0Q);
  R.maxi(std::string("max_unit_length_error_ulps_") + tn, ul);
  if (!(ul <= 4.0)) R.violation(vkey(path, "unit-length", tn), detail(ul));
  // ... and as the library itself reports it (one more square root in T: a-priori 3 ulps)
  const double rl = in_eps<T>(static_cast<f128>(b.reported) - 1.0Q);
  R.maxi(std::string("max_reported_magnitude_error_ulps_") + tn, rl);
  if (!(rl <= 4.0)) R.violation(vkey(path, "reported-magnitude", tn), detail(rl));
  // parallel and pointing the same way
  f128 c2 = 0, dot = 0;
  for (size_t i = 0; i < N; ++i) dot += d[i] * static_cast<f128>(b.in[i]);
  if constexpr (N == 3) {
    const f128 x = static_cast<f128>(b.in[0]), y = static_cast<f128>(b.in[1]), z = static_cast<f128>(b.in[2]);
    const f128 cx = d[1] * z - d[2] * y, cy = d[2] * x - d[0] * z, cz = d[0] * y - d[1] * x;
    c2 = cx * cx + cy * cy + cz * cz;
  } else {
    const f128 cz = d[0] * static_cast<f128>(b.in[1]) - d[1] * static_cast<f128>(b.in[0]);
    c2 = cz * cz;
  }
  const double par = in_eps<T>(sqrtq(c2) / ref.len);
  R.maxi(std::string("max_sine_to_input_eps_") + tn, par);
  if (!(par <= 4.0)) R.violation(vkey(path, "parallel", tn), detail(par));
  const f128 cosine = dot / ref.len;
  if (!(cosine > 0) || !(in_eps<T>(cosine - 1.0Q) <= 4.0)) {
    R.violation(vkey(path, "same-way", tn), detail(in_eps<T>(cosine - 1.0Q)));
  }
  R.eval(N + 4);
  return true;
}

// w = 2^k v exactly (verified by scaling back), false when some component would overflow or lose bits
template <typename T, size_t N>
bool scaled_pow2(const Arr<T, N>& v, int k, Arr<T, N>& w) {
  for (size_t i = 0; i < N; ++i) {
    w[i] = std::ldexp(v[i], k);
    if (!std::isfinite(static_cast<long double>(w[i]))) return false;
    if ((v[i] == 0) != (w[i] == 0)) return false;
    if (!same_bits(std::ldexp(w[i], -k), v[i])) return false;
  }
  return true;
}

template <typename T, size_t N>
int top_exponent(const Arr<T, N>& v) {
  int e = std::numeric_limits<int>::min();
  for (auto x : v) {
    if (x != 0) e = std::max(e, std::ilogb(x));
  }
  return e;
}

// One construction path that takes an arbitrary vector: build(array) -> Built.
// `rescale` is false for derived paths whose input is itself a direction (build(w) would not receive w).
template <typename T, size_t N>
using Builder = std::function<Built<T, N>(const Arr<T, N>&)>;

template <typename T, size_t N>
void run_path(Ctx& C, const std::string& path, uint64_t path_id, const Builder<T, N>& build, bool rescale = true) {
  Reporter& R = C.R;
  const char* tn = Num<T>::name;
  const uint64_t cases = static_cast<uint64_t>(C.A.n("cases", C.A.thorough() ? 240000 : 6000));
  R.list("paths", path);
  const std::string okey = "obs|" + path + "|" + tn;
  R.crumb("C10|path=" + path + "|" + tn);
  bool sampled = false;
  guarded(R, "C10|path=" + path + "|" + tn, [&] {
    for (uint64_t ci = 0; ci < cases; ++ci) {
      if (!C.A.mine(ci + path_id)) continue;
      Rng g(mix(mix(C.A.seed, path_id * 3 + Num<T>::idx), ci));
      const Case<T, N> cs = gen_case<T, N>(g, ci);
      const Built<T, N> b = build(cs.v);
      const Ref<T, N> ref = reference<T, N>(b.in);
      if (!judge_direction<T, N>(R, path, cs.cls, b, ref)) continue;
      R.count(okey);
      R.nontrivial(path + "|" + tn + "|" + cs.cls);
      if (ref.zero) continue;
      if (!sampled && R.want_sample() && mix(path_id * 3 + Num<T>::idx, static_cast<uint64_t>(C.A.shard)) % 24 == 0 && ci % 16 < 8) {
        sampled = true;
        R.sample(J().s("path", path).s("numeric_type", tn).s("class", cs.cls).raw("input", jarr(b.in))
                     .raw("direction", jarr(b.out)).raw("exact", jq(ref.unit)).str());
      }
      if (!rescale) continue;
      // ---- positive rescaling by a power of two: bit-identical
      const int top = top_exponent(b.in);
      int k = g.coin() ? g.range(1, 8) * (g.coin() ? 1 : -1) : g.range(k_lo<T>() - top, k_hi<T>() - top);
      if (k == 0) k = 1;
      Arr<T, N> w{};
      bool done = false;
      if (scaled_pow2<T, N>(b.in, k, w)) {
        const Ref<T, N> rw = reference<T, N>(w);
        if (rw.in_range) {
          const Built<T, N> bw = build(w);
          bool same = true;
          for (size_t i = 0; i < N; ++i) same = same && same_bits(bw.out[i], b.out[i]);
          R.eval(N);
          const bool under = ref.sq_under || rw.sq_under;
          R.count(std::string(under ? "rescale_pow2_with_underflowing_square_" : "rescale_pow2_") + tn);
          if (!same && under) {
            // Outside the premise of the bit-identity clause (ruling: "squared length does not underflow" = no IEEE
            // underflow while computing it): the square of a small component is subnormal or zero in one scale and
            // exact in the other, so the two scales do not perform the same roundings.  Counted and shown, not judged;
            // unit length, parallelism and the component bounds were judged above all the same.
            const std::string ck = std::string("rescale_pow2_with_underflowing_square_not_bit_identical_") + tn;
            R.count(ck);
            if (R.counters[ck] <= 1) {
              R.list("witness_pow2_rescaling_with_underflowing_component_square",
                     J().s("path", path).s("numeric_type", tn).i("log2_factor", k).raw("input", jarr(b.in))
                         .raw("direction", jarr(b.out)).raw("direction_of_scaled", jarr(bw.out)).str());
            }
          } else if (!same) {
            R.violation(vkey(path, "rescale-pow2", tn),
                        J().s("class", cs.cls).i("log2_factor", k).raw("input", jarr(b.in)).raw("direction", jarr(b.out))
                            .raw("scaled_input", jarr(bw.in)).raw("direction_of_scaled", jarr(bw.out)).str());
          }
          done = true;
        }
      }
      if (!done) R.count("rescale_pow2_skipped_inexact_or_out_of_range");
      // ---- positive rescaling by any other factor: unchanged to rounding
      const T c = std::ldexp(g.mantissa<T>(), g.range(-6, 6));
      Arr<T, N> wc{};
      for (size_t i = 0; i < N; ++i) wc[i] = b.in[i] * c;
      const Ref<T, N> rc = reference<T, N>(wc);
      bool lost = false;  // a component went subnormal in the product: the input changed by more than rounding
      for (size_t i = 0; i < N; ++i) {
        if (wc[i] != 0 && fabsq(static_cast<f128>(wc[i])) < ldexpq(1.0Q, Num<T>::emin)) lost = true;
        if (b.in[i] != 0 && fabsq(static_cast<f128>(b.in[i])) < ldexpq(1.0Q, Num<T>::emin)) lost = true;
      }
      if (rc.in_range && !lost) {
        const Built<T, N> bc = build(wc);
        judge_direction<T, N>(R, path, "rescaled-input", bc, rc);
        for (size_t i = 0; i < N; ++i) {
          const f128 moved = fabsq(rc.unit[i] - ref.unit[i]);
          const f128 diff = fabsq(static_cast<f128>(bc.out[i]) - static_cast<f128>(b.out[i]));
          const f128 allow = 8 * ulp_at<T>(ref.unit[i]) + moved;
          const f128 u = diff / ulp_at<T>(ref.unit[i]);
          R.maxi(std::string("max_change_under_rescaling_ulps_") + tn, u > 1e300Q ? 1e300 : static_cast<double>(u));
          if (!(diff <= allow)) {
            R.violation(vkey(path, "rescale|slot=" + std::to_string(i), tn),
                        J().s("class", cs.cls).num("factor", c).raw("input", jarr(b.in)).raw("direction", jarr(b.out))
                            .raw("scaled_input", jarr(bc.in)).raw("direction_of_scaled", jarr(bc.out))
                            .q("exact_change", moved).d("change_ulps", static_cast<double>(u)).str());
          }
        }
        R.eval(N);
        R.count(std::string("rescale_other_") + tn);
      } else {
        R.count("rescale_other_skipped_out_of_range");
      }
    }
  });
}

// ------------------------------------------------------------------------------------------------
// part 0: paths that need Direction.hpp / PlanarDirection.hpp only
// ------------------------------------------------------------------------------------------------
template <typename T, size_t N> struct Raw;

template <typename T> struct Raw<T, 3> {
  using D = PhQ::Direction<T>;
  using V = PhQ::Vector<T>;
  static D from_components(const Arr<T, 3>& a) { return D(a[0], a[1], a[2]); }
  static void set_components(D& d, const Arr<T, 3>& a) { d.Set(a[0], a[1], a[2]); }
  static D member(const V& v) { return v.Direction(); }
  static constexpr const char* components = "x,y,z";
  static constexpr const char* member_name = "Vector::Direction()";
};
template <typename T> struct Raw<T, 2> {
  using D = PhQ::PlanarDirection<T>;
  using V = PhQ::PlanarVector<T>;
  static D from_components(const Arr<T, 2>& a) { return D(a[0], a[1]); }
  static void set_components(D& d, const Arr<T, 2>& a) { d.Set(a[0], a[1]); }
  static D member(const V& v) { return v.PlanarDirection(); }
  static constexpr const char* components = "x,y";
  static constexpr const char* member_name = "PlanarVector::PlanarDirection()";
};

template <typename T, size_t N>
Arr<T, N> other_vector(Rng& g) {  // something unrelated for Set(...) to overwrite
  Arr<T, N> a{};
  for (auto& x : a) x = rnd_sign(g, g.mantissa<T>());
  return a;
}

template <typename T, typename O, size_t N>
void run_converting(Ctx& C, uint64_t id) {
  using K = Kind<T, N>;
  using KO = Kind<O, N>;
  const std::string dn = K::dir;
  // D<T>(const D<O>&): the input the constructor normalises is the cast of the other direction's components
  run_path<T, N>(C, dn + "(" + dn + "<Other>)", id, [&](const Arr<T, N>& v) {
    // the same direction at a length every numeric type can hold: largest component exponent 0
    Arr<O, N> vo{};
    const int top = top_exponent(v);
    for (size_t i = 0; i < N; ++i) vo[i] = static_cast<O>(top == std::numeric_limits<int>::min() ? v[i] : std::ldexp(v[i], -top));
    const typename KO::Dir src(KO::make(vo));
    const Arr<O, N> so = arr_of(src.Value());
    Arr<T, N> in{};
    for (size_t i = 0; i < N; ++i) in[i] = static_cast<T>(so[i]);
    const typename K::Dir d(src);
    return built<T, N>(in, d);
  }, false);
  C.R.count(std::string("converting_from_") + Num<O>::name + "_to_" + Num<T>::name);
  // operator=(const D<O>&) casts and does not normalise: observed, not judged (C16 owns "casts each component and
  // nothing else"); the deviation from unit length is recorded so that a reader sees it
  Reporter& R = C.R;
  Rng g(mix(C.A.seed, id * 977 + 5));
  for (int i = 0; i < 200; ++i) {
    if (!C.A.mine(static_cast<uint64_t>(i))) continue;
    const Case<O, N> cs = gen_case<O, N>(g, static_cast<uint64_t>(i % 5));
    const typename KO::Dir src(KO::make(cs.v));
    typename K::Dir d;
    d = src;
    const Arr<T, N> out = arr_of(d.Value());
    f128 l2 = 0;
    for (auto x : out) l2 += static_cast<f128>(x) * static_cast<f128>(x);
    if (l2 == 0) continue;
    R.maxi(std::string("info_unit_length_error_ulps_after_assignment_from_") + Num<O>::name + "_to_" + Num<T>::name,
           in_eps<T>(sqrtq(l2) - 1.0Q));
    R.count("info_converting_assignments_observed");
  }
}

template <typename T, size_t N>
void run_raw(Ctx& C, uint64_t base_id) {
  using K = Kind<T, N>;
  using RW = Raw<T, N>;
  using D = typename K::Dir;
  using V = typename K::Vec;
  const std::string dn = K::dir, vn = K::vec;
  Reporter& R = C.R;
  const char* tn = Num<T>::name;
  Rng junk(mix(C.A.seed, base_id + 99));

  run_path<T, N>(C, dn + "(" + RW::components + ")", base_id + 1,
                 [&](const Arr<T, N>& v) { return built<T, N>(v, RW::from_components(v)); });
  run_path<T, N>(C, dn + "(array)", base_id + 2, [&](const Arr<T, N>& v) { return built<T, N>(v, D(v)); });
  run_path<T, N>(C, dn + "(" + vn + ")", base_id + 3, [&](const Arr<T, N>& v) {
    const V vec = K::make(v);
    return built<T, N>(arr_of(vec), D(vec));
  });
  run_path<T, N>(C, dn + "::Set(" + RW::components + ")", base_id + 4, [&](const Arr<T, N>& v) {
    D d(other_vector<T, N>(junk));
    RW::set_components(d, v);
    return built<T, N>(v, d);
  });
  run_path<T, N>(C, dn + "::Set(array)", base_id + 5, [&](const Arr<T, N>& v) {
    D d(other_vector<T, N>(junk));
    d.Set(v);
    return built<T, N>(v, d);
  });
  run_path<T, N>(C, dn + "::Set(" + vn + ")", base_id + 6, [&](const Arr<T, N>& v) {
    D d(other_vector<T, N>(junk));
    const V vec = K::make(v);
    d.Set(vec);
    return built<T, N>(arr_of(vec), d);
  });
  run_path<T, N>(C, RW::member_name, base_id + 7, [&](const Arr<T, N>& v) {
    const V vec = K::make(v);
    return built<T, N>(arr_of(vec), RW::member(vec));
  });
  if constexpr (!std::is_same_v<T, float>) run_converting<T, float, N>(C, base_id + 20);
  if constexpr (!std::is_same_v<T, double>) run_converting<T, double, N>(C, base_id + 21);
  if constexpr (!std::is_same_v<T, long double>) run_converting<T, long double, N>(C, base_id + 22);

  // default constructor and Zero(): exactly zero
  {
    const std::string p1 = dn + "()", p2 = dn + "::Zero()";
    R.list("paths", p1);
    R.list("paths", p2);
    const D a;
    const D z = D::Zero();
    for (const auto& pr : {std::make_pair(p1, arr_of(a.Value())), std::make_pair(p2, arr_of(z.Value()))}) {
      bool ok = true;
      for (auto x : pr.second) ok = ok && same_bits(x, static_cast<T>(0));
      R.eval(N);
      R.count("obs|" + pr.first + "|" + tn);
      R.nontrivial(pr.first + "|" + tn);
      if (!ok) R.violation(vkey(pr.first, "zero-vector", tn), J().raw("direction", jarr(pr.second)).str());
    }
  }

  // the plain vector as a "quantity": Magnitude() is a number, V(magnitude, direction) recomposes
  {
    const std::string qn = vn;
    const uint64_t cases = static_cast<uint64_t>(C.A.n("cases", C.A.thorough() ? 240000 : 6000));
    R.list("quantities", qn);
    R.crumb("C10|quantity=" + qn + "|" + tn);
    for (uint64_t ci = 0; ci < cases; ++ci) {
      if (!C.A.mine(ci + base_id + 9)) continue;
      Rng g(mix(mix(C.A.seed, (base_id + 9) * 3 + Num<T>::idx), ci));
      const Case<T, N> cs = gen_case<T, N>(g, ci);
      const V vec = K::make(cs.v);
      const Arr<T, N> in = arr_of(vec);
      const Ref<T, N> ref = reference<T, N>(in);
      if (!ref.zero && !ref.in_range) continue;
      const T m = vec.Magnitude();
      const D d = RW::member(vec);
      const V back(m, d);
      const Arr<T, N> got = arr_of(back);
      const double me = ulps<T>(m, ref.len);
      R.maxi(std::string("max_magnitude_error_ulps_") + tn, me);
      if (!(me <= 3.0) || (ref.zero && !same_bits(m, static_cast<T>(0)))) {
        R.violation("C10|quantity=" + qn + "|magnitude-value|" + tn,
                    J().s("class", cs.cls).raw("input", jarr(in)).num("magnitude", m).q("exact", ref.len).d("error_ulps", me).str());
      }
      for (size_t i = 0; i < N; ++i) {
        const f128 e = fabsq(static_cast<f128>(got[i]) - static_cast<f128>(in[i])) / ulp_at<T>(ref.len);
        const double ed = (got[i] != got[i]) ? std::numeric_limits<double>::infinity() : (e > 1e300Q ? 1e300 : static_cast<double>(e));
        R.maxi(std::string("max_recompose_error_ulps_") + tn, ed);
        if (!(ed <= 4.0)) {
          R.violation("C10|quantity=" + qn + "|recompose|op=" + qn + "(magnitude,direction)|slot=" + std::to_string(i) + "|" + tn,
                      J().s("class", cs.cls).raw("input", jarr(in)).num("magnitude", m).raw("direction", jarr(arr_of(d.Value())))
                          .raw("rebuilt", jarr(got)).d("error_ulps", ed).str());
        }
      }
      R.eval(1 + N);
      R.count("qobs|" + qn + "|" + tn);
      R.count("recompose|" + qn + "|" + qn + "(magnitude,direction)|" + tn);
      R.nontrivial("quantity|" + qn + "|" + tn + "|" + cs.cls);
    }
  }
}

// ---- pairs of directions for Cross -------------------------------------------------------------
template <typename T, size_t N>
struct PairCase {
  Arr<T, N> a, b;
  const char* cls;
};

template <typename T, size_t N>
PairCase<T, N> gen_pair(Rng& g, uint64_t index) {
  PairCase<T, N> p;
  auto rnd = [&](Arr<T, N>& v) {
    for (auto& x : v) x = rnd_sign(g, std::ldexp(g.mantissa<T>(), -g.range(0, 3)));
  };
  rnd(p.a);
  switch (index % 8) {
    case 0: case 1:
      p.cls = "independent";
      rnd(p.b);
      break;
    case 2: case 3: case 4: {
      p.cls = "nearly-parallel";
      Arr<T, N> n{};
      rnd(n);
      const T delta = std::ldexp(g.mantissa<T>(), -g.range(1, Num<T>::p - 5));
      const T s = (index % 8 == 4) ? static_cast<T>(-1) : static_cast<T>(1);  // nearly antiparallel too
      for (size_t i = 0; i < N; ++i) p.b[i] = s * (p.a[i] + delta * n[i]);
      break;
    }
    case 5:
      p.cls = "same-direction";  // b = 2^k a: bit-identical directions, exact cross product is zero
      for (size_t i = 0; i < N; ++i) p.b[i] = std::ldexp(p.a[i], g.range(-20, 20));
      break;
    case 6:
      p.cls = "opposite-direction";
      for (size_t i = 0; i < N; ++i) p.b[i] = -std::ldexp(p.a[i], g.range(-20, 20));
      break;
    default: {
      p.cls = "coordinate-axes";
      p.a = Arr<T, N>{};
      p.b = Arr<T, N>{};
      const size_t i = g.below(N);
      size_t j = g.below(N);
      if (j == i) j = (i + 1) % N;
      p.a[i] = rnd_sign(g, g.mantissa<T>());
      p.b[j] = rnd_sign(g, g.mantissa<T>());
      break;
    }
  }
  return p;
}

// Result r of Cross(a, b) for two directions: the exact cross product c of the stored components is known in
// binary128; the vector the library normalised differs from c by at most 2*sqrt(3) u in length, so for |c| >= 8u the
// result must be a unit vector within (4u/|c| + 8u) of c's direction; for c == 0 exactly it must be the zero vector.
template <typename T, size_t N>
void run_cross(Ctx& C, uint64_t id) {
  using K = Kind<T, N>;
  using D = typename K::Dir;
  Reporter& R = C.R;
  const char* tn = Num<T>::name;
  const std::string path = std::string(K::dir) + "::Cross(" + K::dir + ")";
  const uint64_t cases = static_cast<uint64_t>(C.A.n("cases", C.A.thorough() ? 240000 : 6000));
  R.list("paths", path);
  R.crumb("C10|path=" + path + "|" + tn);
  const f128 u = ldexpq(1.0Q, -Num<T>::p);
  guarded(R, "C10|path=" + path + "|" + tn, [&] {
    for (uint64_t ci = 0; ci < cases; ++ci) {
      if (!C.A.mine(ci + id)) continue;
      Rng g(mix(mix(C.A.seed, id * 3 + Num<T>::idx), ci));
      const PairCase<T, N> pc = gen_pair<T, N>(g, ci);
      const D a(K::make(pc.a)), b(K::make(pc.b));
      const PhQ::Direction<T> r = a.Cross(b);
      const Arr<T, 3> out = arr_of(r.Value());
      const Arr<T, N> av = arr_of(a.Value()), bv = arr_of(b.Value());
      std::array<f128, 3> A3{}, B3{};
      for (size_t i = 0; i < N; ++i) {
        A3[i] = static_cast<f128>(av[i]);
        B3[i] = static_cast<f128>(bv[i]);
      }
      const std::array<f128, 3> c = {A3[1] * B3[2] - A3[2] * B3[1], A3[2] * B3[0] - A3[0] * B3[2], A3[0] * B3[1] - A3[1] * B3[0]};
      const f128 cl = sqrtq(c[0] * c[0] + c[1] * c[1] + c[2] * c[2]);
      std::array<f128, 3> rq{};
      f128 l2 = 0;
      bool all_zero = true, finite = true;
      for (size_t i = 0; i < 3; ++i) {
        rq[i] = static_cast<f128>(out[i]);
        l2 += rq[i] * rq[i];
        all_zero = all_zero && out[i] == 0;
        finite = finite && std::isfinite(static_cast<long double>(out[i]));
      }
      auto detail = [&](double e) {
        return J().s("class", pc.cls).raw("a", jarr(av)).raw("b", jarr(bv)).raw("cross", jarr(out)).raw("exact_cross", jq(c))
            .d("error", e).str();
      };
      R.eval(4);
      R.count("obs|" + path + "|" + tn);
      R.nontrivial(path + "|" + tn + "|" + pc.cls);
      if (!finite) {
        R.violation(vkey(path, "not-finite", tn), detail(0));
        continue;
      }
      if (N == 2 && !(out[0] == 0 && out[1] == 0)) R.violation(vkey(path, "out-of-plane-part", tn), detail(0));
      if (cl == 0) {
        bool ok = true;
        for (auto x : out) ok = ok && same_bits(x, static_cast<T>(0));
        if (!ok) R.violation(vkey(path, "zero-vector", tn), detail(0));
        R.count(std::string("cross_exactly_parallel_") + tn);
        continue;
      }
      if (cl < 8 * u) {
        R.count("cross_unjudged_below_rounding_level");
        continue;
      }
      if (all_zero) {
        R.violation(vkey(path, "unexpected-zero", tn), detail(0));
        continue;
      }
      const double ul = in_eps<T>(sqrtq(l2) - 1.0Q);
      R.maxi(std::string("max_unit_length_error_ulps_") + tn, ul);
      if (!(ul <= 4.0)) R.violation(vkey(path, "unit-length", tn), detail(ul));
      const std::array<f128, 3> x = {rq[1] * c[2] - rq[2] * c[1], rq[2] * c[0] - rq[0] * c[2], rq[0] * c[1] - rq[1] * c[0]};
      const f128 sine = sqrtq(x[0] * x[0] + x[1] * x[1] + x[2] * x[2]) / cl;
      const f128 bound = 4 * u / cl + 8 * u;
      const f128 ratio = sine / bound;
      R.maxi(std::string("max_cross_sine_over_bound_") + tn, static_cast<double>(ratio));
      if (!(sine <= bound)) R.violation(vkey(path, "parallel", tn), detail(static_cast<double>(ratio)));
      const f128 dot = rq[0] * c[0] + rq[1] * c[1] + rq[2] * c[2];
      if (bound < 0.5Q && !(dot > 0)) R.violation(vkey(path, "same-way", tn), detail(0));
      if (R.want_sample() && ci % 11 == 2 && (id + static_cast<uint64_t>(C.A.shard)) % 16 == 3 && std::strcmp(pc.cls, "nearly-parallel") == 0 && R.counters["cross_samples"] < 1) {
        R.count("cross_samples");
        R.sample(J().s("path", path).s("numeric_type", tn).s("class", pc.cls).raw("a", jarr(av)).raw("b", jarr(bv))
                     .raw("cross", jarr(out)).raw("exact_cross", jq(c)).str());
      }
    }
  });
}

// ---- 2-D <-> 3-D -------------------------------------------------------------------------------
template <typename T>
void run_dimension_change(Ctx& C, uint64_t id) {
  // Direction(PlanarDirection): the vector normalised is (pd.x, pd.y, +0)
  run_path<T, 2>(C, "Direction(PlanarDirection)", id, [&](const Arr<T, 2>& v) {
    const PhQ::PlanarDirection<T> pd(v[0], v[1]);
    const PhQ::Direction<T> d(pd);
    const Arr<T, 3> out = arr_of(d.Value());
    const Arr<T, 2> in = arr_of(pd.Value());
    // the third slot is judged here, the first two by the caller against the planar direction's components
    C.R.eval(1);
    if (!same_bits(out[2], static_cast<T>(0))) {
      C.R.violation(vkey("Direction(PlanarDirection)", "z-component", Num<T>::name),
                    J().raw("planar_direction", jarr(in)).raw("direction", jarr(out)).str());
    }
    return Built<T, 2>{in, Arr<T, 2>{out[0], out[1]}, d.Magnitude()};
  }, false);
  // PlanarDirection(Direction): the vector normalised is (d.x, d.y)
  run_path<T, 3>(C, "PlanarDirection(Direction)", id + 1, [&](const Arr<T, 3>& v) {
    const PhQ::Direction<T> d(v[0], v[1], v[2]);
    const PhQ::PlanarDirection<T> pd(d);
    const Arr<T, 3> dv = arr_of(d.Value());
    const Arr<T, 2> out = arr_of(pd.Value());
    // embed as a 3-D case whose z slot is zero on both sides
    return Built<T, 3>{Arr<T, 3>{dv[0], dv[1], static_cast<T>(0)}, Arr<T, 3>{out[0], out[1], static_cast<T>(0)}, pd.Magnitude()};
  }, false);
}

#ifdef C10_HAVE_QUANTITIES
// ------------------------------------------------------------------------------------------------
// the vector quantities
// ------------------------------------------------------------------------------------------------
template <typename Q, typename = void> struct has_x : std::false_type {};
template <typename Q> struct has_x<Q, std::void_t<decltype(std::declval<const Q&>().x())>> : std::true_type {};
template <typename Q, typename = void> struct has_y : std::false_type {};
template <typename Q> struct has_y<Q, std::void_t<decltype(std::declval<const Q&>().y())>> : std::true_type {};
template <typename Q, typename = void> struct has_z : std::false_type {};
template <typename Q> struct has_z<Q, std::void_t<decltype(std::declval<const Q&>().z())>> : std::true_type {};

template <typename A, typename B, typename = void> struct product { using type = void; };
template <typename A, typename B>
struct product<A, B, std::void_t<decltype(std::declval<const A&>() * std::declval<const B&>())>> {
  using type = std::decay_t<decltype(std::declval<const A&>() * std::declval<const B&>())>;
};

template <typename Q, typename T, size_t N> struct QDir;
template <typename Q, typename T> struct QDir<Q, T, 3> {
  static PhQ::Direction<T> member(const Q& q) { return q.Direction(); }
  static constexpr const char* member_name = "Direction()";
};
template <typename Q, typename T> struct QDir<Q, T, 2> {
  static PhQ::PlanarDirection<T> member(const Q& q) { return q.PlanarDirection(); }
  static constexpr const char* member_name = "PlanarDirection()";
};

template <template <typename> class QT, template <typename> class MT, size_t N, typename T>
void run_quantity_T(Ctx& C, const char* qname, const char* mname, uint64_t qindex) {
  using Q = QT<T>;
  using K = Kind<T, N>;
  using D = typename K::Dir;
  using M = std::decay_t<decltype(std::declval<const Q&>().Magnitude())>;
  using QD = QDir<Q, T, N>;
  Reporter& R = C.R;
  const char* tn = Num<T>::name;
  const std::string qn = qname;
  const std::string qk = "C10|quantity=" + qn + "|";
  const uint64_t id = 1000 + qindex * 16;
  R.list("quantities", qn);

  // ---- static facts, observed once per (quantity, numeric type)
  const std::string mt = type_name<M>();
  R.list("magnitude_type_pairing", qn + "<" + tn + ">::Magnitude() -> " + mt);
  R.eval(3);
  R.nontrivial("pairing|" + qn + "|" + tn);
  if (!std::is_same_v<M, MT<T>>) {
    R.violation(qk + "magnitude-type|" + tn, J().s("got", mt).s("expected", std::string("PhQ::") + mname + "<" + tn + ">").str());
  }
  if (!(M::Dimensions() == Q::Dimensions())) {
    R.violation(qk + "magnitude-dimensions|" + tn,
                J().s("magnitude_type", mt).s("magnitude_dimensions", M::Dimensions().Print()).s("quantity_dimensions", Q::Dimensions().Print()).str());
  }
  R.list("dimensions", qn + " [" + Q::Dimensions().Print() + "] magnitude " + mt + " [" + M::Dimensions().Print() + "]");
  constexpr bool hx = has_x<Q>::value, hy = has_y<Q>::value, hz = has_z<Q>::value;
  if (!hx) R.violation(qk + "accessor=x|missing|" + tn, "{}");
  if (!hy) R.violation(qk + "accessor=y|missing|" + tn, "{}");
  if (N == 3 && !hz) R.violation(qk + "accessor=z|missing|" + tn, "{}");
  // a planar quantity has no third slot: a declared z() cannot be instantiated and is never called here
  if (N == 2 && hz) R.list("accessors_declared_but_uninstantiable", qn + "::z()");
  if constexpr (hx) {
    using X = std::decay_t<decltype(std::declval<const Q&>().x())>;
    if (!std::is_same_v<X, M>) R.violation(qk + "accessor=x|type|" + tn, J().s("got", type_name<X>()).s("magnitude_type", mt).str());
  }
  if constexpr (hy) {
    using Y = std::decay_t<decltype(std::declval<const Q&>().y())>;
    if (!std::is_same_v<Y, M>) R.violation(qk + "accessor=y|type|" + tn, J().s("got", type_name<Y>()).s("magnitude_type", mt).str());
  }
  if constexpr (N == 3 && hz) {
    using Z = std::decay_t<decltype(std::declval<const Q&>().z())>;
    if (!std::is_same_v<Z, M>) R.violation(qk + "accessor=z|type|" + tn, J().s("got", type_name<Z>()).s("magnitude_type", mt).str());
  }
  constexpr bool md = std::is_same_v<typename product<M, D>::type, Q>;  // magnitude * direction
  constexpr bool dm = std::is_same_v<typename product<D, M>::type, Q>;  // direction * magnitude
  constexpr bool ctor = std::is_constructible_v<Q, const M&, const D&>;
  R.list("recompose_operations", qn + ": " + (md ? "M*D " : "") + (dm ? "D*M " : "") + (ctor ? "Q(M,D)" : ""));
  if (!md) R.list("recompose_not_declared", qn + ": magnitude*direction yields " + type_name<typename product<M, D>::type>());
  if (!dm) R.list("recompose_not_declared", qn + ": direction*magnitude yields " + type_name<typename product<D, M>::type>());

  // ---- the two direction paths through this quantity
  const std::string p_ctor = std::string(K::dir) + "(" + qn + ")";
  const std::string p_mem = qn + "::" + QD::member_name;
  run_path<T, N>(C, p_ctor, id + 1, [&](const Arr<T, N>& v) {
    const Q q = from_si<Q>(v);
    return built<T, N>(to_si(q), D(q));
  });
  run_path<T, N>(C, p_mem, id + 2, [&](const Arr<T, N>& v) {
    const Q q = from_si<Q>(v);
    return built<T, N>(to_si(q), QD::member(q));
  });

  // ---- magnitude, accessors, recomposition
  const uint64_t cases = static_cast<uint64_t>(C.A.n("cases", C.A.thorough() ? 240000 : 6000));
  R.crumb(qk + tn);
  bool sampled = false;
  guarded(R, qk + tn, [&] {
    for (uint64_t ci = 0; ci < cases; ++ci) {
      if (!C.A.mine(ci + id + 3)) continue;
      Rng g(mix(mix(C.A.seed, (id + 3) * 3 + Num<T>::idx), ci));
      const Case<T, N> cs = gen_case<T, N>(g, ci);
      const Q q = from_si<Q>(cs.v);
      const Arr<T, N> in = to_si(q);
      auto detail = [&]() { return J().s("class", cs.cls).raw("given", jarr(cs.v)).raw("value", jarr(in)); };
      // the standard-unit constructor stores what it was given
      bool stored = true;
      for (size_t i = 0; i < N; ++i) stored = stored && same_bits(in[i], cs.v[i]);
      if (!stored) R.violation(qk + "stored-value|" + tn, detail().str());
      // typed accessors
      if constexpr (hx) {
        const T x = q.x().Value();
        if (!same_bits(x, in[0])) R.violation(qk + "accessor=x|" + tn, detail().num("got", x).str());
      }
      if constexpr (hy) {
        const T y = q.y().Value();
        if (!same_bits(y, in[1])) R.violation(qk + "accessor=y|" + tn, detail().num("got", y).str());
      }
      if constexpr (N == 3 && hz) {
        const T z = q.z().Value();
        if (!same_bits(z, in[2])) R.violation(qk + "accessor=z|" + tn, detail().num("got", z).str());
      }
      R.eval(1 + N);
      R.count("accessors|" + qn + "|" + tn);
      // rebuilt from its own typed components
      if constexpr (N == 3 && hx && hy && hz) {
        if constexpr (std::is_constructible_v<Q, const M&, const M&, const M&>) {
          const Q again(q.x(), q.y(), q.z());
          const Arr<T, N> a = to_si(again);
          bool ok = true;
          for (size_t i = 0; i < N; ++i) ok = ok && same_bits(a[i], in[i]);
          if (!ok) R.violation(qk + "from-components|" + tn, detail().raw("rebuilt", jarr(a)).str());
          R.count("from_components|" + qn + "|" + tn);
          R.eval(N);
        }
      } else if constexpr (N == 2 && hx && hy) {
        if constexpr (std::is_constructible_v<Q, const M&, const M&>) {
          const Q again(q.x(), q.y());
          const Arr<T, N> a = to_si(again);
          bool ok = true;
          for (size_t i = 0; i < N; ++i) ok = ok && same_bits(a[i], in[i]);
          if (!ok) R.violation(qk + "from-components|" + tn, detail().raw("rebuilt", jarr(a)).str());
          R.count("from_components|" + qn + "|" + tn);
          R.eval(N);
        }
      }
      const Ref<T, N> ref = reference<T, N>(in);
      if (!ref.zero && !ref.in_range) {
        R.count("skipped_squared_length_out_of_range");
        continue;
      }
      // magnitude
      const M mag = q.Magnitude();
      const T m = mag.Value();
      const double me = ulps<T>(m, ref.len);
      R.maxi(std::string("max_magnitude_error_ulps_") + tn, me);
      if (!(me <= 3.0) || (ref.zero && !same_bits(m, static_cast<T>(0)))) {
        R.violation(qk + "magnitude-value|" + tn, detail().num("magnitude", m).q("exact", ref.len).d("error_ulps", me).str());
      }
      R.eval(1);
      // recomposition
      const D d = QD::member(q);
      auto check = [&](const char* op, const Q& back) {
        const Arr<T, N> got = to_si(back);
        for (size_t i = 0; i < N; ++i) {
          const f128 e = fabsq(static_cast<f128>(got[i]) - static_cast<f128>(in[i])) / ulp_at<T>(ref.len);
          const double ed = (got[i] != got[i]) ? std::numeric_limits<double>::infinity() : (e > 1e300Q ? 1e300 : static_cast<double>(e));
          R.maxi(std::string("max_recompose_error_ulps_") + tn, ed);
          if (!(ed <= 4.0)) {
            R.violation(qk + "recompose|op=" + op + "|slot=" + std::to_string(i) + "|" + tn,
                        detail().num("magnitude", m).raw("direction", jarr(arr_of(d.Value()))).raw("rebuilt", jarr(got))
                            .d("error_ulps_at_scale_of_length", ed).str());
          }
        }
        R.eval(N);
        R.count("recompose|" + qn + "|" + op + "|" + tn);
      };
      if constexpr (md) check("magnitude*direction", mag * d);
      if constexpr (dm) check("direction*magnitude", d * mag);
      if constexpr (ctor) check("Q(magnitude,direction)", Q(mag, d));
      R.count("qobs|" + qn + "|" + tn);
      R.nontrivial("quantity|" + qn + "|" + tn + "|" + cs.cls);
      if (!sampled && R.want_sample() && mix(id, static_cast<uint64_t>(C.A.shard) + Num<T>::idx) % 12 == 0 && !ref.zero && ci % 16 < 5) {
        sampled = true;
        R.sample(detail().s("quantity", qn).s("numeric_type", tn).num("magnitude", m).q("exact_norm", ref.len)
                     .raw("direction", jarr(arr_of(d.Value()))).str());
      }
    }
  });
}

#endif  // C10_HAVE_QUANTITIES

}  // namespace

template <typename T>
static void run_raw_unit(Ctx& C) {
  run_raw<T, 3>(C, 100);
  run_raw<T, 2>(C, 200);
  run_cross<T, 3>(C, 300);
  run_cross<T, 2>(C, 310);
  run_dimension_change<T>(C, 320);
}

// (quantity, the scalar type its magnitude is expected to have, dimension of the space, index)
#define C10_VECTOR_QUANTITIES(X) \
  X(Acceleration, ScalarAcceleration, 3, 0) \
  X(Displacement, Length, 3, 1) \
  X(Force, ScalarForce, 3, 2) \
  X(HeatFlux, ScalarHeatFlux, 3, 3) \
  X(Position, Length, 3, 4) \
  X(TemperatureGradient, ScalarTemperatureGradient, 3, 5) \
  X(Traction, ScalarTraction, 3, 6) \
  X(VectorArea, Area, 3, 7) \
  X(Velocity, Speed, 3, 8) \
  X(PlanarAcceleration, ScalarAcceleration, 2, 9) \
  X(PlanarDisplacement, Length, 2, 10) \
  X(PlanarForce, ScalarForce, 2, 11) \
  X(PlanarHeatFlux, ScalarHeatFlux, 2, 12) \
  X(PlanarPosition, Length, 2, 13) \
  X(PlanarTemperatureGradient, ScalarTemperatureGradient, 2, 14) \
  X(PlanarTraction, ScalarTraction, 2, 15) \
  X(PlanarVelocity, Speed, 2, 16)

void VERIF_THIS_PART(Reporter& R, const Args& A) {
  Ctx C{R, A};
#if C10_UNIT_HERE(0)
  run_raw_unit<float>(C);
#endif
#if C10_UNIT_HERE(1)
  run_raw_unit<double>(C);
#endif
#if C10_UNIT_HERE(2)
  run_raw_unit<long double>(C);
#endif
#define X(QN, MN, DIM, IDX)                                                                                        \
  if constexpr (C10_UNIT_HERE(3 + 3 * IDX + 0)) run_quantity_T<PhQ::QN, PhQ::MN, DIM, float>(C, #QN, #MN, IDX);   \
  if constexpr (C10_UNIT_HERE(3 + 3 * IDX + 1)) run_quantity_T<PhQ::QN, PhQ::MN, DIM, double>(C, #QN, #MN, IDX);  \
  if constexpr (C10_UNIT_HERE(3 + 3 * IDX + 2)) run_quantity_T<PhQ::QN, PhQ::MN, DIM, long double>(C, #QN, #MN, IDX);
  C10_VECTOR_QUANTITIES(X)
#undef X
}

#if VERIF_PART == 0
int main(int argc, char** argv) {
  Args A = parse_args(argc, argv);
  Reporter R(A.out);
  R.max_samples = 3;
  verif_run_parts(R, A);
  return R.finish();
}
#endif
