// main() of the dump program: calls the parts (see dump.cpp).
#include <iostream>
void dump_rest(std::ostream&);
#define DECL(k) void dump_part_##k(std::ostream&, bool&);
DECL(0) DECL(1) DECL(2) DECL(3) DECL(4) DECL(5) DECL(6) DECL(7) DECL(8) DECL(9) DECL(10) DECL(11)
int main() {
  std::ostream& out = std::cout;
  out << "{\"unit_types\":[\n";
  bool first = true;
#define CALL(k) dump_part_##k(out, first);
  CALL(0) CALL(1) CALL(2) CALL(3) CALL(4) CALL(5) CALL(6) CALL(7) CALL(8) CALL(9) CALL(10) CALL(11)
  out << "\n],\n";
  dump_rest(out);
  out << "}\n";
  return 0;
}
