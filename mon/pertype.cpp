// Per-type monitors over the 92 quantity class templates + PlanarVector/Vector/SymmetricDyad/Dyad + the
// three constitutive models, selected by --prop:
//   C14  comparison is a total order on stored values, equal objects hash equally, std containers work
//   C16  changing floating-point precision casts each component and nothing else
//   C17  quantities are bare numbers in memory
// Built in parts over the quantity index.
#include <algorithm>
#include <set>
#include <unordered_set>

#include "allq.hpp"
#include "common/parts.hpp"
#include "common/traits.hpp"

using namespace verif;

static const Args* g_args;
static std::string g_prop;

// ------------------------------------------------------------------------------------------------
// a uniform view of a type as an array of numbers
// ------------------------------------------------------------------------------------------------
template <typename X, typename = void> struct View;  // T, n, make(array), arr(x)
template <typename Q>
struct View<Q, std::void_t<decltype(std::declval<const Q&>().Value()), decltype(Q::Dimensions())>> {
  using T = num_t<Q>;
  static constexpr int n = n_of<Q>;
  static Q make(const std::array<T, n>& a) { return from_si<Q>(a); }
  static std::array<T, n> arr(const Q& q) { return to_si(q); }
};
#define RAW_VIEW(SHAPE, N)                                                                             \
  template <typename U> struct View<PhQ::SHAPE<U>, void> {                                             \
    using T = U;                                                                                       \
    static constexpr int n = N;                                                                        \
    static PhQ::SHAPE<U> make(const std::array<U, N>& a) { return FromArr<PhQ::SHAPE<U>>::make(a); }   \
    static std::array<U, N> arr(const PhQ::SHAPE<U>& v) { return to_arr(v); }                          \
  };
RAW_VIEW(PlanarVector, 2)
RAW_VIEW(Vector, 3)
RAW_VIEW(SymmetricDyad, 6)
RAW_VIEW(Dyad, 9)
#undef RAW_VIEW
template <typename U> struct View<PhQ::ConstitutiveModel::ElasticIsotropicSolid<U>, void> {
  using T = U;
  using X = PhQ::ConstitutiveModel::ElasticIsotropicSolid<U>;
  static constexpr int n = 2;
  static X make(const std::array<U, 2>& a) {
    return X(from_si<PhQ::ShearModulus<U>>({a[0]}), from_si<PhQ::LameFirstModulus<U>>({a[1]}));
  }
  static std::array<U, 2> arr(const X& m) { return {m.ShearModulus().Value(), m.LameFirstModulus().Value()}; }
};
template <typename U> struct View<PhQ::ConstitutiveModel::CompressibleNewtonianFluid<U>, void> {
  using T = U;
  using X = PhQ::ConstitutiveModel::CompressibleNewtonianFluid<U>;
  static constexpr int n = 2;
  static X make(const std::array<U, 2>& a) {
    return X(from_si<PhQ::DynamicViscosity<U>>({a[0]}), from_si<PhQ::BulkDynamicViscosity<U>>({a[1]}));
  }
  static std::array<U, 2> arr(const X& m) { return {m.DynamicViscosity().Value(), m.BulkDynamicViscosity().Value()}; }
};
template <typename U> struct View<PhQ::ConstitutiveModel::IncompressibleNewtonianFluid<U>, void> {
  using T = U;
  using X = PhQ::ConstitutiveModel::IncompressibleNewtonianFluid<U>;
  static constexpr int n = 1;
  static X make(const std::array<U, 1>& a) { return X(from_si<PhQ::DynamicViscosity<U>>({a[0]})); }
  static std::array<U, 1> arr(const X& m) { return {m.DynamicViscosity().Value()}; }
};

template <typename T, size_t N>
static bool has_nan(const std::array<T, N>& a) {
  for (auto v : a) {
    if (v != v) return true;
  }
  return false;
}

template <typename X, typename = void> struct has_hash : std::false_type {};
template <typename X>
struct has_hash<X, std::void_t<decltype(std::hash<X>()(std::declval<const X&>()))>> : std::true_type {};

// ------------------------------------------------------------------------------------------------
// C14
// ------------------------------------------------------------------------------------------------
template <typename T, size_t N>
static int model_cmp(const std::array<T, N>& a, const std::array<T, N>& b) {
  for (size_t i = 0; i < N; ++i) {
    if (a[i] < b[i]) return -1;
    if (a[i] > b[i]) return 1;
  }
  return 0;  // IEEE equality slot by slot: -0 == +0
}

template <typename X>
static void c14_type(Reporter& R, const std::string& name, uint64_t id) {
  using V = View<X>;
  using T = typename V::T;
  constexpr size_t N = V::n;
  const std::string key = "C14|" + name + "|" + Num<T>::name;
  const T inf = std::numeric_limits<T>::infinity();
  const bool direction = is_direction<X>::value;
  std::vector<T> G = {-inf, static_cast<T>(-2), -static_cast<T>(0), static_cast<T>(0), static_cast<T>(1), static_cast<T>(2), inf};
  if (direction) G = {static_cast<T>(-2), -static_cast<T>(0), static_cast<T>(0), static_cast<T>(1), static_cast<T>(2)};
  Rng rng(mix(mix(g_args->seed, 0xC14), mix(id, Num<T>::idx)));
  R.crumb(key);
  guarded(R, key, [&] {
    // objects
    std::vector<std::array<T, N>> raws;
    if constexpr (N <= 3) {
      std::array<T, N> a;
      std::function<void(size_t)> rec = [&](size_t i) {
        if (i == N) {
          raws.push_back(a);
          return;
        }
        for (T v : G) {
          a[i] = v;
          rec(i + 1);
        }
      };
      rec(0);
    } else {
      // tie-forcing families: a random base, then for a random slot p every grid value (equal prefix, differing slot)
      const int fam = g_args->thorough() ? 120 : 24;
      for (int f = 0; f < fam; ++f) {
        std::array<T, N> base;
        for (auto& v : base) v = G[rng.below(G.size())];
        const size_t p = rng.below(N);
        for (T v : G) {
          auto a = base;
          a[p] = v;
          raws.push_back(a);
          if (p + 1 < N) {  // also vary a later slot so that the earlier one ties
            auto b = a;
            b[N - 1] = G[rng.below(G.size())];
            raws.push_back(b);
          }
        }
      }
    }
    std::vector<X> objs;
    std::vector<std::array<T, N>> st;
    for (auto& a : raws) {
      X x = V::make(a);
      auto s = V::arr(x);
      if (has_nan(s)) continue;  // the order is specified on non-NaN values
      objs.push_back(x);
      st.push_back(s);
    }
    const size_t M = objs.size();
    R.count("c14_objects", static_cast<long long>(M));
    auto check_pair = [&](size_t i, size_t j) -> bool {
      const int c = model_cmp(st[i], st[j]);
      const X &a = objs[i], &b = objs[j];
      const bool lt = a < b, gt = a > b, eq = a == b, ne = a != b, le = a <= b, ge = a >= b;
      R.eval(6);
      std::string bad;
      if (lt != (c < 0)) bad += "<";
      if (gt != (c > 0)) bad += ">";
      if (eq != (c == 0)) bad += "==";
      if (ne != (c != 0)) bad += "!=";
      if (le != (c <= 0)) bad += "<=";
      if (ge != (c >= 0)) bad += ">=";
      if (!bad.empty()) {
        R.violation(key + "|compare|" + bad, J().s("type", name).s("operators_wrong", bad).raw("a", jarr(st[i])).raw("b", jarr(st[j])).str());
        return false;
      }
      if constexpr (has_hash<X>::value) {
        if (c == 0) {
          R.eval();
          if (std::hash<X>()(a) != std::hash<X>()(b)) {
            R.violation(key + "|hash", J().s("type", name).raw("a", jarr(st[i])).raw("b", jarr(st[j])).str());
            return false;
          }
        }
      }
      size_t k = 0;
      while (k < N && st[i][k] == st[j][k]) ++k;
      R.nontrivial(mix(hash_str(key), k * 3 + (c < 0 ? 0 : c > 0 ? 1 : 2)));
      return true;
    };
    bool ok = true;
    if (M <= 400) {
      for (size_t i = 0; i < M && ok; ++i) for (size_t j = 0; j < M && ok; ++j) ok = check_pair(i, j);
    } else {
      const long long np = g_args->n("pairs", g_args->thorough() ? 2000000 : 20000);
      for (long long k = 0; k < np && ok; ++k) {
        const size_t i = rng.below(M);
        // half of the pairs come from the same family (neighbours in generation order): ties in leading slots
        const size_t j = rng.coin() ? rng.below(M) : std::min(M - 1, i + rng.below(16));
        ok = check_pair(i, j) && check_pair(j, i);
      }
    }
    if (!ok) return;
    // transitivity on the library's own operators
    const long long nt = g_args->n("triples", g_args->thorough() ? 1000000 : 10000);
    for (long long k = 0; k < nt; ++k) {
      const X &a = objs[rng.below(M)], &b = objs[rng.below(M)], &c = objs[rng.below(M)];
      R.eval();
      if ((a < b && b < c && !(a < c)) || (a == b && b == c && !(a == c)) || (a <= b && b <= c && !(a <= c))) {
        R.violation(key + "|transitivity", J().s("type", name).raw("a", jarr(V::arr(a))).raw("b", jarr(V::arr(b))).raw("c", jarr(V::arr(c))).str());
        return;
      }
    }
    // std containers: a shuffled multiset ends with as many elements as model equivalence classes
    {
      std::vector<size_t> idx;
      const size_t take = std::min<size_t>(M, g_args->thorough() ? 2000 : 300);
      for (size_t k = 0; k < take; ++k) idx.push_back(rng.below(M));
      for (size_t k = 0; k < take / 2; ++k) idx.push_back(idx[rng.below(idx.size())]);
      auto less = [&](size_t a, size_t b) { return model_cmp(st[a], st[b]) < 0; };
      std::set<size_t, decltype(less)> classes(less);
      for (size_t i : idx) classes.insert(i);
      std::set<X> s;
      for (size_t i : idx) s.insert(objs[i]);
      R.eval();
      if (s.size() != classes.size()) {
        R.violation(key + "|std::set|size", J().s("type", name).i("set_size", s.size()).i("model_classes", classes.size()).str());
        return;
      }
      for (size_t i : idx) {
        R.eval();
        if (s.find(objs[i]) == s.end()) {
          R.violation(key + "|std::set|find", J().s("type", name).raw("a", jarr(st[i])).str());
          return;
        }
      }
      if constexpr (has_hash<X>::value) {
        std::unordered_set<X> us;
        for (size_t i : idx) us.insert(objs[i]);
        R.eval();
        if (us.size() != classes.size()) {
          R.violation(key + "|std::unordered_set|size", J().s("type", name).i("set_size", us.size()).i("model_classes", classes.size()).str());
          return;
        }
        for (size_t i : idx) {
          R.eval();
          if (us.find(objs[i]) == us.end()) {
            R.violation(key + "|std::unordered_set|find", J().s("type", name).raw("a", jarr(st[i])).str());
            return;
          }
        }
        R.count(std::string("c14_hashed_types_") + Num<T>::name);
      } else {
        R.list("c14_types_without_std_hash", name);
      }
    }
    if (R.want_sample(id, 19) && M > 3) {
      R.sample(J().s("type", name).s("numeric_type", Num<T>::name).raw("a", jarr(st[1])).raw("b", jarr(st[M / 2]))
                   .i("a_lt_b", objs[1] < objs[M / 2]).i("a_eq_b", objs[1] == objs[M / 2]).str());
    }
  });
  R.count(std::string("c14_types_") + Num<T>::name);
}

// ------------------------------------------------------------------------------------------------
// C16
// ------------------------------------------------------------------------------------------------
template <typename T1>
static T1 c16_value(Rng& rng, int cls) {
  switch (cls) {
    case 0: return rng.logu<T1>(-20, 20, true);                       // full mantissa: not representable when narrowed
    case 1: return static_cast<T1>(rng.range(-1000, 1000));          // exact everywhere
    case 2: return rng.logu<T1>(std::is_same_v<T1, float> ? 100 : 200, std::is_same_v<T1, float> ? 126 : 1000, true);   // huge
    case 3: return rng.logu<T1>(std::is_same_v<T1, float> ? -140 : -1070, std::is_same_v<T1, float> ? -120 : -140, true);  // tiny / subnormal after narrowing
    case 4: return rng.coin() ? static_cast<T1>(0) : -static_cast<T1>(0);
    case 6: {
      // next to the midpoint of two adjacent floats (or doubles): rounding in two steps through an intermediate
      // type lands on the tie and then goes to even, a direct cast does not
      if constexpr (std::is_same_v<T1, long double>) {
        if (rng.coin()) {
          const float f = rng.logu<float>(-20, 20, true);
          const long double mid = (static_cast<long double>(f) + static_cast<long double>(std::nextafter(f, f > 0 ? 3e38f : -3e38f))) / 2;
          return mid * (1.0L + (rng.coin() ? 1 : -1) * std::ldexp(1.0L, -rng.range(55, 62)));
        }
        const double d = rng.logu<double>(-20, 20, true);
        const long double mid = (static_cast<long double>(d) + static_cast<long double>(std::nextafter(d, d > 0 ? 1e308 : -1e308))) / 2;
        return rng.coin() ? mid : std::nextafter(mid, rng.coin() ? 1e4000L : -1e4000L);
      } else if constexpr (std::is_same_v<T1, double>) {
        const float f = rng.logu<float>(-20, 20, true);
        const double mid = (static_cast<double>(f) + static_cast<double>(std::nextafter(f, f > 0 ? 3e38f : -3e38f))) / 2;
        return rng.coin() ? mid : std::nextafter(mid, rng.coin() ? 1e308 : -1e308);
      } else {
        return rng.mantissa<T1>();
      }
    }
    default: return rng.mantissa<T1>() * (rng.coin() ? 1 : -1);
  }
}

template <template <typename> class QT, typename T1, typename T2>
static void c16_pair(Reporter& R, const std::string& name, uint64_t id) {
  using Q1 = QT<T1>;
  using Q2 = QT<T2>;
  using V1 = View<Q1>;
  using V2 = View<Q2>;
  constexpr size_t N = V1::n;
  constexpr bool has_ctor = std::is_constructible_v<Q2, const Q1&>;
  constexpr bool has_assign = std::is_assignable_v<Q2&, const Q1&>;
  const std::string pair = std::string(Num<T1>::name) + "->" + Num<T2>::name;
  const std::string key = "C16|" + name + "|" + pair;
  if constexpr (!has_ctor) R.list("c16_no_converting_constructor", name + " " + pair);
  if constexpr (!has_assign) R.list("c16_no_converting_assignment", name + " " + pair);
  if constexpr (has_ctor || has_assign) {
    constexpr bool direction = is_direction<Q1>::value;
    Rng rng(mix(mix(g_args->seed, 0xC16), mix(id, Num<T1>::idx * 3 + Num<T2>::idx)));
    const int reps = static_cast<int>(g_args->n("values", g_args->thorough() ? 20000 : 200));
    R.crumb(key);
    guarded(R, key, [&] {
      for (int rep = 0; rep < reps; ++rep) {
        std::array<T1, N> a;
        const int cls = direction ? (rep % 2 ? 0 : 5) : rep % 7;
        for (auto& v : a) v = c16_value<T1>(rng, cls);
        if (direction && rep % 7 == 0) a.fill(0);  // the zero direction stays zero
        const Q1 q1 = V1::make(a);
        const auto s1 = V1::arr(q1);
        std::array<T2, N> want;
        for (size_t i = 0; i < N; ++i) want[i] = static_cast<T2>(s1[i]);
        auto judge = [&](const Q2& q2, const char* how) -> bool {
          const auto s2 = V2::arr(q2);
          R.eval();
          for (size_t i = 0; i < N; ++i) {
            bool ok;
            if (direction) {
              // re-normalised: within two ulps of the cast, and of unit length like any direction
              using Coarse = std::conditional_t<(sizeof(T1) < sizeof(T2)), T1, T2>;
              ok = static_cast<double>(fabsq(static_cast<f128>(s2[i]) - static_cast<f128>(want[i])) / ulp_at<Coarse>(1.0Q)) <= 2.0;
            } else {
              ok = same_value_bits(s2[i], want[i]);
            }
            if (!ok) {
              R.violation(key + "|" + how, J().s("type", name).s("conversion", pair).s("how", how).i("slot", i).raw("source", jarr(s1))
                                               .raw("result", jarr(s2)).raw("static_cast_expected", jarr(want)).str());
              return false;
            }
          }
          if (direction) {
            f128 m2 = 0;
            for (auto v : s2) m2 += static_cast<f128>(v) * static_cast<f128>(v);
            bool zero = true;
            for (auto v : s1) zero = zero && v == 0;
            const double dev = zero ? 0.0 : static_cast<double>(fabsq(sqrtq(m2) - 1) / static_cast<f128>(std::numeric_limits<T2>::epsilon()));
            R.maxi(std::string("c16_direction_unit_length_deviation_eps_") + how, dev);
            if (!(dev <= 4.0)) {
              R.violation(key + "|" + how + "|not-renormalised",
                          J().s("type", name).s("conversion", pair).s("how", how).raw("source", jarr(s1)).raw("result", jarr(s2))
                              .d("length_minus_one_in_eps", dev).str());
              return false;
            }
          }
          return true;
        };
        if constexpr (has_ctor) {
          if (!judge(Q2(q1), "constructor")) return;
        }
        if constexpr (has_assign) {
          // the target already holds an unrelated non-zero value: assignment must replace it, not combine with it
          std::array<T2, N> junk;
          for (auto& v : junk) v = static_cast<T2>(rng.logu<double>(-3, 3, true));
          Q2 q2 = V2::make(junk);
          q2 = q1;
          if (!judge(q2, "assignment")) return;
          // the target already holds numbers that compare equal to the result but are not the same numbers (the zero of the
          // other sign in every slot whose result is a zero): assignment still stores the cast of the source
          if constexpr (!direction) {
            std::array<T2, N> twin = want;
            bool differs = false;
            for (auto& v : twin) {
              if (v == 0) {
                v = -v;
                differs = true;
              }
            }
            if (differs) {
              Q2 q3 = V2::make(twin);
              q3 = q1;
              R.count("c16_assignments_onto_equal_comparing_target");
              if (!judge(q3, "assignment-onto-equal-comparing-value")) return;
            }
          }
        }
        // widening followed by narrowing is the identity
        if constexpr (has_ctor && std::is_constructible_v<Q1, const Q2&> && (sizeof(T2) > sizeof(T1))) {
          const Q1 back{Q2(q1)};
          const auto sb = V1::arr(back);
          R.eval();
          for (size_t i = 0; i < N; ++i) {
            // directions are re-normalised by each of the two conversions (two ulps each, at the scale of the unit vector)
            const bool ok = direction ? static_cast<double>(fabsq(static_cast<f128>(sb[i]) - static_cast<f128>(s1[i])) / ulp_at<T1>(1.0Q)) <= 4.0
                                      : same_value_bits(sb[i], s1[i]);
            if (!ok) {
              R.violation(key + "|widen-then-narrow", J().s("type", name).s("conversion", pair).i("slot", i).raw("source", jarr(s1)).raw("back", jarr(sb)).str());
              return;
            }
          }
        }
      }
      R.nontrivial(hash_str(key));
      if (R.want_sample(id, 31) && std::is_same_v<T1, double> && std::is_same_v<T2, float>) {
        std::array<T1, N> a;
        for (auto& v : a) v = c16_value<T1>(rng, 0);
        const Q1 q1 = V1::make(a);
        if constexpr (has_ctor) R.sample(J().s("type", name).s("conversion", pair).raw("source", jarr(V1::arr(q1))).raw("result", jarr(V2::arr(Q2(q1)))).str());
      }
    });
    R.count("c16_conversions_" + pair);
  }
}

template <template <typename> class QT>
static void c16_type(Reporter& R, const std::string& name, uint64_t id) {
  c16_pair<QT, float, double>(R, name, id);
  c16_pair<QT, float, long double>(R, name, id);
  c16_pair<QT, double, float>(R, name, id);
  c16_pair<QT, double, long double>(R, name, id);
  c16_pair<QT, long double, float>(R, name, id);
  c16_pair<QT, long double, double>(R, name, id);
}

// ------------------------------------------------------------------------------------------------
// C17
// ------------------------------------------------------------------------------------------------
template <typename T> static constexpr size_t value_bytes = std::is_same_v<T, long double> ? 10 : sizeof(T);

template <typename X, typename = void> struct has_zero : std::false_type {};
template <typename X> struct has_zero<X, std::void_t<decltype(X::Zero())>> : std::true_type {};
template <typename X, typename = void> struct has_set_value : std::false_type {};
template <typename X>
struct has_set_value<X, std::void_t<decltype(std::declval<X&>().SetValue(std::declval<const X&>().Value()))>> : std::true_type {};
template <typename X, typename = void> struct has_mutable_value : std::false_type {};
template <typename X> struct has_mutable_value<X, std::void_t<decltype(std::declval<X&>().MutableValue())>> : std::true_type {};

template <typename Q>
static void c17_type(Reporter& R, const std::string& name, uint64_t id) {
  using V = View<Q>;
  using T = typename V::T;
  constexpr size_t N = V::n;
  const std::string key = "C17|" + name + "|" + Num<T>::name;
  R.crumb(key);
  // (a) constants, observed at run time so that a change is a VIOLATION naming the type, not a build failure
  struct { const char* what; long long got, want; } facts[] = {
      {"sizeof", static_cast<long long>(sizeof(Q)), static_cast<long long>(N * sizeof(T))},
      {"alignof", static_cast<long long>(alignof(Q)), static_cast<long long>(alignof(T))},
      {"is_trivially_copyable", std::is_trivially_copyable_v<Q>, 1},
      {"is_standard_layout", std::is_standard_layout_v<Q>, 1},
      {"is_polymorphic", std::is_polymorphic_v<Q>, 0},
  };
  for (auto& f : facts) {
    R.eval();
    if (f.got != f.want) R.violation(key + "|" + f.what, J().s("type", name).s("fact", f.what).i("observed", f.got).i("expected", f.want).str());
  }
  if constexpr (sizeof(Q) == N * sizeof(T) && std::is_trivially_copyable_v<Q>) {
    Rng rng(mix(mix(g_args->seed, 0xC17), mix(id, Num<T>::idx)));
    guarded(R, key, [&] {
      const int reps = static_cast<int>(g_args->n("probes", g_args->thorough() ? 4000 : 100));
      for (int rep = 0; rep < reps; ++rep) {
        // (b) no constructor leaves a slot unwritten, and slot i lives at byte offset i*sizeof(T)
        alignas(16) unsigned char buf[sizeof(Q)];
        std::memset(buf, 0xA5, sizeof buf);
        std::array<T, N> a;
        for (size_t i = 0; i < N; ++i) a[i] = rng.logu<T>(-30, 30, true) + static_cast<T>(i);
        Q* q = new (buf) Q(V::make(a));
        const auto s = V::arr(*q);
        R.eval();
        for (size_t i = 0; i < N; ++i) {
          if (std::memcmp(buf + i * sizeof(T), &s[i], value_bytes<T>) != 0) {
            R.violation(key + "|slot-bytes", J().s("type", name).i("slot", i).raw("stored", jarr(s)).str());
            return;
          }
        }
        // arrays of quantities can be handled as arrays of numbers
        constexpr size_t K = 8;
        Q qs[K];
        T flat[K * N];
        std::array<T, N> vals[K];
        for (size_t k = 0; k < K; ++k) {
          for (size_t i = 0; i < N; ++i) vals[k][i] = rng.logu<T>(-30, 30, true);
          qs[k] = V::make(vals[k]);
          vals[k] = V::arr(qs[k]);
        }
        std::memcpy(flat, qs, sizeof qs);
        R.eval();
        for (size_t k = 0; k < K; ++k) for (size_t i = 0; i < N; ++i) {
          if (!same_bits(flat[k * N + i], vals[k][i])) {
            R.violation(key + "|array-as-numbers", J().s("type", name).i("element", k).i("slot", i).str());
            return;
          }
        }
        Q back[K];
        std::memcpy(back, flat, sizeof back);
        for (size_t k = 0; k < K; ++k) {
          const auto sb = V::arr(back[k]);
          for (size_t i = 0; i < N; ++i) {
            if (!same_bits(sb[i], vals[k][i])) {
              R.violation(key + "|numbers-as-array", J().s("type", name).i("element", k).i("slot", i).str());
              return;
            }
          }
        }
        // mutators and accessors expose exactly the stored value
        if constexpr (has_set_value<Q>::value) {
          Q m = V::make(a);
          const Q other = V::make(vals[0]);
          m.SetValue(other.Value());
          R.eval();
          if (V::arr(m) != vals[0]) {
            R.violation(key + "|SetValue", J().s("type", name).raw("set", jarr(vals[0])).raw("read", jarr(V::arr(m))).str());
            return;
          }
          R.count("c17_setvalue_probes");
          // the same onto a quantity whose current numbers compare equal to the new ones without being the same numbers
          // (zeros of the other sign): the new numbers are stored, bit for bit
          if constexpr (!is_direction<Q>::value) {
            std::array<T, N> z = vals[0], twin;
            for (size_t i = 0; i < N; ++i) {
              if (N == 1 || rng.below(2) == 0) z[i] = rng.coin() ? static_cast<T>(0) : -static_cast<T>(0);
              twin[i] = z[i] == 0 ? -z[i] : z[i];
            }
            Q mz = V::make(twin);
            const Q oz = V::make(z);
            const auto zs = V::arr(oz);
            mz.SetValue(oz.Value());
            const auto got = V::arr(mz);
            R.eval();
            for (size_t i = 0; i < N; ++i) {
              if (!same_bits(got[i], zs[i])) {
                R.violation(key + "|SetValue-onto-equal-comparing-value", J().s("type", name).i("slot", i).raw("held", jarr(twin)).raw("set", jarr(zs)).raw("read", jarr(got)).str());
                return;
              }
            }
            R.count("c17_setvalue_signed_zero_probes");
          }
        }
        if constexpr (has_mutable_value<Q>::value) {
          Q m = V::make(a);
          const Q other = V::make(vals[1]);
          m.MutableValue() = other.Value();
          R.eval();
          if (V::arr(m) != vals[1]) {
            R.violation(key + "|MutableValue", J().s("type", name).raw("written", jarr(vals[1])).raw("read", jarr(V::arr(m))).str());
            return;
          }
          R.count("c17_mutablevalue_probes");
          if constexpr (!is_direction<Q>::value) {
            std::array<T, N> z = vals[1], twin;
            for (size_t i = 0; i < N; ++i) {
              if (N == 1 || rng.below(2) == 0) z[i] = rng.coin() ? static_cast<T>(0) : -static_cast<T>(0);
              twin[i] = z[i] == 0 ? -z[i] : z[i];
            }
            Q mz = V::make(twin);
            const Q oz = V::make(z);
            const auto zs = V::arr(oz);
            mz.MutableValue() = oz.Value();
            const auto got = V::arr(mz);
            R.eval();
            for (size_t i = 0; i < N; ++i) {
              if (!same_bits(got[i], zs[i])) {
                R.violation(key + "|MutableValue-onto-equal-comparing-value", J().s("type", name).i("slot", i).raw("held", jarr(twin)).raw("written", jarr(zs)).raw("read", jarr(got)).str());
                return;
              }
            }
          }
          // whole-value assignment through the mutable reference from the other forms the value type accepts, onto a value that
          // already holds other numbers: every stored number is replaced, none is kept
          using VT = std::decay_t<decltype(std::declval<Q&>().MutableValue())>;
          if constexpr (N > 1 && std::is_assignable_v<VT&, const std::array<T, N>&>) {
            Q m2 = V::make(a);
            m2.MutableValue() = vals[2];
            R.eval();
            if (V::arr(m2) != vals[2]) {
              R.violation(key + "|MutableValue=array", J().s("type", name).raw("before", jarr(a)).raw("written", jarr(vals[2])).raw("read", jarr(V::arr(m2))).str());
              return;
            }
            R.count("c17_mutablevalue_array_probes");
          }
          if constexpr (N == 9 && std::is_assignable_v<VT&, const PhQ::SymmetricDyad<T>&>) {
            std::array<T, 6> six;
            for (auto& v : six) v = rng.logu<T>(-30, 30, true);
            const std::array<T, N> want = {six[0], six[1], six[2], six[1], six[3], six[4], six[2], six[4], six[5]};
            Q m3 = V::make(a);
            m3.MutableValue() = PhQ::SymmetricDyad<T>(six);
            R.eval();
            if (V::arr(m3) != want) {
              R.violation(key + "|MutableValue=SymmetricDyad", J().s("type", name).raw("before", jarr(a)).raw("written_symmetric", jarr(six)).raw("read", jarr(V::arr(m3))).str());
              return;
            }
            R.count("c17_mutablevalue_symmetric_probes");
          }
        }
      }
      if constexpr (has_zero<Q>::value) {
        alignas(16) unsigned char zb[sizeof(Q)];
        std::memset(zb, 0xA5, sizeof zb);
        new (zb) Q(Q::Zero());
        R.eval();
        for (size_t i = 0; i < N; ++i) {
          for (size_t b = 0; b < value_bytes<T>; ++b) {
            if (zb[i * sizeof(T) + b] != 0) {
              R.violation(key + "|Zero", J().s("type", name).i("slot", i).i("byte", b).str());
              return;
            }
          }
        }
        R.count(std::string("c17_zero_") + Num<T>::name);
      } else {
        R.list("c17_types_without_Zero", name);
      }
      R.nontrivial(hash_str(key));
      if (R.want_sample(id, 29)) {
        R.sample(J().s("type", name).s("numeric_type", Num<T>::name).i("sizeof", sizeof(Q)).i("components", N)
                     .i("trivially_copyable", std::is_trivially_copyable_v<Q>).i("standard_layout", std::is_standard_layout_v<Q>).str());
      }
    });
  }
  R.count(std::string("c17_types_") + Num<T>::name);
}

// C17 for the value shapes themselves: every named setter / mutable reference writes exactly the number that
// the accessor of the same name reads, and changes nothing else (symmetric aliases yx, zx, zy map onto xy, xz, yz)
template <typename S, typename F>
static void c17_component(Reporter& R, const std::string& key, const char* comp, int slot, Rng& rng, F&& apply) {
  using T = typename View<S>::T;
  constexpr size_t N = View<S>::n;
  std::array<T, N> a;
  for (size_t i = 0; i < N; ++i) a[i] = rng.logu<T>(-20, 20, true);
  S s = View<S>::make(a);
  const T v = rng.logu<T>(-20, 20, true);
  const T read = apply(s, v);
  const auto after = View<S>::arr(s);
  R.eval();
  bool ok = same_bits(read, v);
  for (size_t i = 0; i < N; ++i) ok = ok && same_bits(after[i], static_cast<int>(i) == slot ? v : a[i]);
  if (!ok) {
    R.violation(key + "|" + comp, J().s("component", comp).i("expected_slot", slot).num("written", v).num("read_back", read)
                                      .raw("before", jarr(a)).raw("after", jarr(after)).str());
  }
}

// whole-value assignment of a shape from the other forms it accepts, onto an object that already holds other numbers
template <typename S, typename Src, size_t N>
static void c17_assign(Reporter& R, const std::string& key, const char* form, Rng& rng, const Src& src, const std::array<typename View<S>::T, N>& want) {
  using T = typename View<S>::T;
  std::array<T, N> a;
  for (size_t i = 0; i < N; ++i) a[i] = rng.logu<T>(-20, 20, true);
  S s = View<S>::make(a);
  s = src;
  const auto after = View<S>::arr(s);
  R.eval();
  for (size_t i = 0; i < N; ++i) {
    if (!same_bits(after[i], want[i])) {
      R.violation(key + "|assign|" + form, J().s("form", form).i("slot", i).raw("before", jarr(a)).raw("expected", jarr(want)).raw("after", jarr(after)).str());
      return;
    }
  }
}

// the all-components setter called with references into the object's own storage, permuted: the arguments have definite
// values at the call, so the result is the permutation of the old numbers
template <typename S, size_t N, typename F>
static void c17_self_permute(Reporter& R, const std::string& key, Rng& rng, F&& apply) {
  using T = typename View<S>::T;
  std::array<T, N> a;
  for (size_t i = 0; i < N; ++i) a[i] = rng.logu<T>(-20, 20, true);
  std::array<size_t, N> perm;
  for (size_t i = 0; i < N; ++i) perm[i] = i;
  for (size_t i = N - 1; i > 0; --i) std::swap(perm[i], perm[rng.below(i + 1)]);
  S s = View<S>::make(a);
  apply(s, perm);
  const auto after = View<S>::arr(s);
  R.eval();
  for (size_t i = 0; i < N; ++i) {
    if (!same_bits(after[i], a[perm[i]])) {
      std::string ps;
      for (size_t k = 0; k < N; ++k) ps += (k ? "," : "") + std::to_string(perm[k]);
      R.violation(key + "|Set-all-components-from-own-storage", J().s("permutation", ps).i("slot", i).raw("before", jarr(a)).raw("after", jarr(after)).str());
      return;
    }
  }
}

#define C17_COMP(S, COMP, SLOT)                                                                                               \
  c17_component<S>(R, key + "|Set", #COMP, SLOT, rng, [](S& s, T v) { s.Set_##COMP(v); return s.COMP(); });                      \
  c17_component<S>(R, key + "|Mutable", #COMP, SLOT, rng, [](S& s, T v) { s.Mutable_##COMP() = v; return s.COMP(); });

template <typename T>
static void c17_shapes(Reporter& R, uint64_t id) {
  Rng rng(mix(mix(g_args->seed, 0xC175), mix(id, Num<T>::idx)));
  const int reps = static_cast<int>(g_args->n("probes", g_args->thorough() ? 4000 : 100));
  using PV = PhQ::PlanarVector<T>;
  using VV = PhQ::Vector<T>;
  using SD = PhQ::SymmetricDyad<T>;
  using DD = PhQ::Dyad<T>;
  for (int rep = 0; rep < reps; ++rep) {
    {
      const std::string key = std::string("C17|PlanarVector|") + Num<T>::name;
      R.crumb(key);
      C17_COMP(PV, x, 0) C17_COMP(PV, y, 1)
      std::array<T, 2> b;
      for (auto& v : b) v = rng.logu<T>(-20, 20, true);
      c17_assign<PV>(R, key, "=array", rng, b, b);
      c17_self_permute<PV, 2>(R, key, rng, [](PV& v, const std::array<size_t, 2>& p) { const auto& c = v.x_y(); v.Set_x_y(c[p[0]], c[p[1]]); });
    }
    {
      const std::string key = std::string("C17|Vector|") + Num<T>::name;
      R.crumb(key);
      C17_COMP(VV, x, 0) C17_COMP(VV, y, 1) C17_COMP(VV, z, 2)
      std::array<T, 3> b;
      for (auto& v : b) v = rng.logu<T>(-20, 20, true);
      c17_assign<VV>(R, key, "=array", rng, b, b);
      c17_self_permute<VV, 3>(R, key, rng, [](VV& v, const std::array<size_t, 3>& p) { const auto& c = v.x_y_z(); v.Set_x_y_z(c[p[0]], c[p[1]], c[p[2]]); });
    }
    {
      const std::string key = std::string("C17|SymmetricDyad|") + Num<T>::name;
      R.crumb(key);
      C17_COMP(SD, xx, 0) C17_COMP(SD, xy, 1) C17_COMP(SD, xz, 2) C17_COMP(SD, yx, 1) C17_COMP(SD, yy, 3)
      C17_COMP(SD, yz, 4) C17_COMP(SD, zx, 2) C17_COMP(SD, zy, 4) C17_COMP(SD, zz, 5)
      std::array<T, 6> b;
      for (auto& v : b) v = rng.logu<T>(-20, 20, true);
      c17_assign<SD>(R, key, "=array", rng, b, b);
      c17_self_permute<SD, 6>(R, key, rng, [](SD& v, const std::array<size_t, 6>& p) {
        const auto& c = v.xx_xy_xz_yy_yz_zz();
        v.Set_xx_xy_xz_yy_yz_zz(c[p[0]], c[p[1]], c[p[2]], c[p[3]], c[p[4]], c[p[5]]);
      });
    }
    {
      const std::string key = std::string("C17|Dyad|") + Num<T>::name;
      R.crumb(key);
      C17_COMP(DD, xx, 0) C17_COMP(DD, xy, 1) C17_COMP(DD, xz, 2) C17_COMP(DD, yx, 3) C17_COMP(DD, yy, 4)
      C17_COMP(DD, yz, 5) C17_COMP(DD, zx, 6) C17_COMP(DD, zy, 7) C17_COMP(DD, zz, 8)
      std::array<T, 9> b;
      for (auto& v : b) v = rng.logu<T>(-20, 20, true);
      c17_assign<DD>(R, key, "=array", rng, b, b);
      c17_self_permute<DD, 9>(R, key, rng, [](DD& v, const std::array<size_t, 9>& p) {
        const auto& c = v.xx_xy_xz_yx_yy_yz_zx_zy_zz();
        v.Set_xx_xy_xz_yx_yy_yz_zx_zy_zz(c[p[0]], c[p[1]], c[p[2]], c[p[3]], c[p[4]], c[p[5]], c[p[6]], c[p[7]], c[p[8]]);
      });
      std::array<T, 6> six;
      for (auto& v : six) v = rng.logu<T>(-20, 20, true);
      const std::array<T, 9> emb = {six[0], six[1], six[2], six[1], six[3], six[4], six[2], six[4], six[5]};
      c17_assign<DD>(R, key, "=SymmetricDyad", rng, SD(six), emb);
    }
  }
  for (const char* sh : {"PlanarVector", "Vector", "SymmetricDyad", "Dyad"}) R.nontrivial(hash_str(std::string("C17|shape|") + sh + Num<T>::name));
  R.count(std::string("c17_shape_component_probes_") + Num<T>::name, reps);
}

// ------------------------------------------------------------------------------------------------
template <template <typename> class QT>
static void visit(Reporter& R, const char* name, uint64_t id) {
  if (!g_args->mine(id)) return;
  if (g_prop == "C14") {
    c14_type<QT<float>>(R, name, id);
    c14_type<QT<double>>(R, name, id);
    c14_type<QT<long double>>(R, name, id);
  } else if (g_prop == "C16") {
    c16_type<QT>(R, name, id);
  } else {
    c17_type<QT<float>>(R, name, id);
    c17_type<QT<double>>(R, name, id);
    c17_type<QT<long double>>(R, name, id);
  }
}

template <typename U> using ModelSolid = PhQ::ConstitutiveModel::ElasticIsotropicSolid<U>;
template <typename U> using ModelCompressible = PhQ::ConstitutiveModel::CompressibleNewtonianFluid<U>;
template <typename U> using ModelIncompressible = PhQ::ConstitutiveModel::IncompressibleNewtonianFluid<U>;

template <template <typename> class QT>
static void visit_extra(Reporter& R, const char* name, uint64_t id, bool bare_numbers) {
  if (!g_args->mine(id)) return;
  if (g_prop == "C14") {
    c14_type<QT<float>>(R, name, id);
    c14_type<QT<double>>(R, name, id);
    c14_type<QT<long double>>(R, name, id);
  } else if (g_prop == "C16" && bare_numbers) {
    c16_type<QT>(R, name, id);
  }
}

void VERIF_THIS_PART(Reporter& R, const Args& A) {
  g_args = &A;
  g_prop = A.get("prop", "C14");
#define X(Q, I)                         \
  if constexpr (VERIF_IN_PART(I)) {     \
    visit<PhQ::Q>(R, #Q, I);            \
  }
  VERIF_QUANTITIES(X)
#undef X
#if VERIF_PART == 0
  visit_extra<PhQ::PlanarVector>(R, "PlanarVector", 200, true);
  visit_extra<PhQ::Vector>(R, "Vector", 201, true);
#endif
#if VERIF_PART == 1 || VERIF_PARTS == 1
  visit_extra<PhQ::SymmetricDyad>(R, "SymmetricDyad", 202, true);
  visit_extra<PhQ::Dyad>(R, "Dyad", 203, true);
#endif
#if VERIF_PART == 3 || VERIF_PARTS == 1
  if (g_prop == "C17" && A.mine(207)) {
    c17_shapes<float>(R, 207);
    c17_shapes<double>(R, 207);
    c17_shapes<long double>(R, 207);
  }
#endif
#if VERIF_PART == 2 || VERIF_PARTS == 1
  visit_extra<ModelSolid>(R, "ConstitutiveModel::ElasticIsotropicSolid", 204, false);
  visit_extra<ModelCompressible>(R, "ConstitutiveModel::CompressibleNewtonianFluid", 205, false);
  visit_extra<ModelIncompressible>(R, "ConstitutiveModel::IncompressibleNewtonianFluid", 206, false);
#endif
}

#if VERIF_PART == 0
int main(int argc, char** argv) {
  Args A = parse_args(argc, argv);
  Reporter R(A.out);
  verif_run_parts(R, A);
  return R.finish();
}
#endif
