// Conditioning-aware error bound (DESIGN.md 2.5):  |got - ref| <= K*ulp_T(ref) + K*Delta, where Delta is the
// largest change of the binary128 reference when each input is moved by one ulp of the type under test.
#pragma once
#include <array>
#include <cmath>
#include <vector>

#include "verif.hpp"

namespace verif {

template <typename T>
inline T next_up(T x) { return std::nextafter(x, std::numeric_limits<T>::infinity()); }
template <typename T>
inline T next_down(T x) { return std::nextafter(x, -std::numeric_limits<T>::infinity()); }

// ref_fn: (const std::vector<f128>&) -> f128, evaluated at the inputs (exact values of the T inputs) and at the
// 2n one-ulp neighbours.  Returns Delta.
template <typename T, typename F>
inline f128 sensitivity(F&& ref_fn, const std::vector<T>& inputs) {
  std::vector<f128> x(inputs.size());
  for (size_t i = 0; i < inputs.size(); ++i) x[i] = static_cast<f128>(inputs[i]);
  const f128 r0 = ref_fn(x);
  f128 d = 0;
  for (size_t i = 0; i < inputs.size(); ++i) {
    const f128 keep = x[i];
    for (int s = 0; s < 2; ++s) {
      x[i] = static_cast<f128>(s ? next_up(inputs[i]) : next_down(inputs[i]));
      const f128 r = ref_fn(x);
      const f128 c = fabsq(r - r0);
      if (c == c && c > d) d = c;
    }
    x[i] = keep;
  }
  return d;
}

// Error of `got` against `ref` in units of (ulp_T(ref) + Delta): a result is accepted when this is <= K.
template <typename T>
inline double cond_error(T got, f128 ref, f128 delta) {
  if (got != got) return std::numeric_limits<double>::infinity();
  if (std::isinf(static_cast<long double>(got))) return std::numeric_limits<double>::infinity();
  const f128 unit = ulp_at<T>(ref) + delta;
  const f128 e = fabsq(static_cast<f128>(got) - ref) / unit;
  return e > 1e300Q ? 1e300 : static_cast<double>(e);
}

}  // namespace verif
