// Generic construction and inspection of PhQ quantities by shape.
#pragma once
#include <array>
#include <type_traits>
#include <utility>

#include "PhQ/Dyad.hpp"
#include "PhQ/PlanarVector.hpp"
#include "PhQ/SymmetricDyad.hpp"
#include "PhQ/Vector.hpp"

namespace verif {

template <typename V> struct Shape;  // number of stored numbers and (de)composition
template <> struct Shape<float> { static constexpr int n = 1; using T = float; };
template <> struct Shape<double> { static constexpr int n = 1; using T = double; };
template <> struct Shape<long double> { static constexpr int n = 1; using T = long double; };
template <typename U> struct Shape<PhQ::PlanarVector<U>> { static constexpr int n = 2; using T = U; };
template <typename U> struct Shape<PhQ::Vector<U>> { static constexpr int n = 3; using T = U; };
template <typename U> struct Shape<PhQ::SymmetricDyad<U>> { static constexpr int n = 6; using T = U; };
template <typename U> struct Shape<PhQ::Dyad<U>> { static constexpr int n = 9; using T = U; };

inline const char* shape_name(int n) {
  switch (n) {
    case 1: return "scalar";
    case 2: return "planar-vector";
    case 3: return "vector";
    case 6: return "symmetric-dyad";
    case 9: return "dyad";
  }
  return "?";
}

template <typename T> inline std::array<T, 1> to_arr(const T& v) { return {v}; }
template <typename T> inline std::array<T, 2> to_arr(const PhQ::PlanarVector<T>& v) { return {v.x(), v.y()}; }
template <typename T> inline std::array<T, 3> to_arr(const PhQ::Vector<T>& v) { return {v.x(), v.y(), v.z()}; }
template <typename T> inline std::array<T, 6> to_arr(const PhQ::SymmetricDyad<T>& v) {
  return {v.xx(), v.xy(), v.xz(), v.yy(), v.yz(), v.zz()};
}
template <typename T> inline std::array<T, 9> to_arr(const PhQ::Dyad<T>& v) {
  return {v.xx(), v.xy(), v.xz(), v.yx(), v.yy(), v.yz(), v.zx(), v.zy(), v.zz()};
}

template <typename V> struct FromArr;
template <> struct FromArr<float> { static float make(const std::array<float, 1>& a) { return a[0]; } };
template <> struct FromArr<double> { static double make(const std::array<double, 1>& a) { return a[0]; } };
template <> struct FromArr<long double> { static long double make(const std::array<long double, 1>& a) { return a[0]; } };
template <typename T> struct FromArr<PhQ::PlanarVector<T>> {
  static PhQ::PlanarVector<T> make(const std::array<T, 2>& a) { return PhQ::PlanarVector<T>(a[0], a[1]); }
};
template <typename T> struct FromArr<PhQ::Vector<T>> {
  static PhQ::Vector<T> make(const std::array<T, 3>& a) { return PhQ::Vector<T>(a[0], a[1], a[2]); }
};
template <typename T> struct FromArr<PhQ::SymmetricDyad<T>> {
  static PhQ::SymmetricDyad<T> make(const std::array<T, 6>& a) {
    return PhQ::SymmetricDyad<T>(a[0], a[1], a[2], a[3], a[4], a[5]);
  }
};
template <typename T> struct FromArr<PhQ::Dyad<T>> {
  static PhQ::Dyad<T> make(const std::array<T, 9>& a) {
    return PhQ::Dyad<T>(a[0], a[1], a[2], a[3], a[4], a[5], a[6], a[7], a[8]);
  }
};

template <typename Q>
using value_t = std::decay_t<decltype(std::declval<const Q&>().Value())>;

template <typename Q>
inline constexpr int n_of = Shape<value_t<Q>>::n;

template <typename Q>
using num_t = typename Shape<value_t<Q>>::T;

template <typename Q, typename = void> struct has_unit : std::false_type {};
template <typename Q> struct has_unit<Q, std::void_t<decltype(Q::Unit())>> : std::true_type {};

template <typename Q>
using unit_t = std::decay_t<decltype(Q::Unit())>;

// Construct Q whose stored SI value is exactly `a` (no table look-up happens on the standard-unit path).
// Directions normalise; callers that need the stored value must read it back with to_si.
template <typename Q>
inline Q from_si(const std::array<num_t<Q>, n_of<Q>>& a) {
  using V = value_t<Q>;
  if constexpr (has_unit<Q>::value) {
    return Q(FromArr<V>::make(a), Q::Unit());
  } else {
    return Q(FromArr<V>::make(a));
  }
}

template <typename Q>
inline std::array<num_t<Q>, n_of<Q>> to_si(const Q& q) {
  return to_arr(q.Value());
}

template <typename T> inline std::array<T, 1> to_si_any(const T& v, std::enable_if_t<std::is_floating_point_v<T>>* = nullptr) {
  return {v};
}

// Is this class a direction (stored value is normalised on construction)?
template <typename Q, typename = void> struct is_direction : std::false_type {};
template <typename T> struct is_direction<PhQ::Direction<T>> : std::true_type {};
template <typename T> struct is_direction<PhQ::PlanarDirection<T>> : std::true_type {};

}  // namespace verif
