// Compiler reflection of enumerators: for an enum with int8_t underlying type, which of the 256
// values are declared enumerators, and what are they called.  Works with g++ 12 and clang++ 14.
#pragma once
#include <array>
#include <cstdint>
#include <string>
#include <string_view>
#include <utility>
#include <vector>

namespace verif {

template <typename E, E V>
constexpr std::string_view pretty_enum() {
  return __PRETTY_FUNCTION__;
}

// For a declared enumerator the pretty function ends in "V = PhQ::Unit::Speed::Knot]" (g++:
// "...; E V = PhQ::Unit::Speed::Knot; std::string_view = ...]"); otherwise "(PhQ::Unit::Speed)40".
template <typename E, E V>
constexpr std::string_view enum_name() {
  constexpr std::string_view p = pretty_enum<E, V>();
  constexpr std::size_t at = p.find("V = ");
  if (at == std::string_view::npos) return {};
  std::size_t b = at + 4;
  std::size_t e = b;
  while (e < p.size() && p[e] != ';' && p[e] != ']' && p[e] != ',') ++e;
  std::string_view s = p.substr(b, e - b);
  if (s.empty() || s[0] == '(') return {};
  for (char c : s) {
    if (c == '(' || c == ')') return {};
  }
  std::size_t k = s.rfind("::");
  if (k != std::string_view::npos) s = s.substr(k + 2);
  if (s.empty() || (s[0] >= '0' && s[0] <= '9') || s[0] == '-') return {};
  return s;
}

template <typename E, int V>
constexpr bool is_named = !enum_name<E, static_cast<E>(V)>().empty();

template <typename E>
struct Enumerators {
  template <int... I>
  static std::vector<std::pair<int, std::string>> collect(std::integer_sequence<int, I...>) {
    std::vector<std::pair<int, std::string>> out;
    (void)std::initializer_list<int>{(
        [&] {
          constexpr std::string_view n = enum_name<E, static_cast<E>(I - 128)>();
          if (!n.empty()) out.emplace_back(I - 128, std::string(n));
        }(),
        0)...};
    return out;
  }
  static const std::vector<std::pair<int, std::string>>& get() {
    static const auto v = collect(std::make_integer_sequence<int, 256>{});
    return v;
  }
  static std::string name(E e) {
    for (auto& p : get()) {
      if (p.first == static_cast<int>(e)) return p.second;
    }
    return "(unnamed " + std::to_string(static_cast<int>(e)) + ")";
  }
  static bool named(E e) {
    for (auto& p : get()) {
      if (p.first == static_cast<int>(e)) return true;
    }
    return false;
  }
};

// Call f(std::integral_constant<E, V>{}) for every *named* enumerator V of E (compile-time dispatch:
// lets a monitor instantiate ConvertStatically<U, From, To>, Create<u>, StaticValue<u> for all units).
template <typename E, typename F, int... I>
inline void for_each_named_impl(F&& f, std::integer_sequence<int, I...>) {
  (void)std::initializer_list<int>{(
      [&] {
        if constexpr (is_named<E, I - 128>) {
          f(std::integral_constant<E, static_cast<E>(I - 128)>{});
        }
      }(),
      0)...};
}

template <typename E, typename F>
inline void for_each_named(F&& f) {
  for_each_named_impl<E>(std::forward<F>(f), std::make_integer_sequence<int, 256>{});
}

}  // namespace verif
