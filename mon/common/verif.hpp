// Common monitor runtime: PRNG, argument parsing, JSON emission, reporter (evaluations / distinct
// cases / samples / violations / breadcrumb), numeric helpers (bit patterns, binary128 ulp distance).
// No dependency on PhQ.
#pragma once
#include <quadmath.h>

#include <array>
#include <cinttypes>
#include <cmath>
#include <cstdint>
#include <cstdio>
#include <cstdlib>
#include <cstring>
#include <fstream>
#include <functional>
#include <limits>
#include <map>
#include <set>
#include <sstream>
#include <string>
#include <type_traits>
#include <unordered_set>
#include <vector>

namespace verif {

using f128 = __float128;

// ------------------------------------------------------------------------------------------------
// PRNG: xoshiro256** seeded through splitmix64; every case derives its own stream.
// ------------------------------------------------------------------------------------------------
inline uint64_t splitmix64(uint64_t& x) {
  uint64_t z = (x += 0x9e3779b97f4a7c15ULL);
  z = (z ^ (z >> 30)) * 0xbf58476d1ce4e5b9ULL;
  z = (z ^ (z >> 27)) * 0x94d049bb133111ebULL;
  return z ^ (z >> 31);
}

inline uint64_t mix(uint64_t a, uint64_t b) {
  // chained splitmix64: injective in b for fixed a and well mixed in a (no collisions between small
  // neighbouring arguments, so consecutive seeds give unrelated streams)
  uint64_t x = a;
  uint64_t h = splitmix64(x);
  x = h ^ b;
  h = splitmix64(x);
  x = h + 0x632be59bd9b4e019ULL * (b | 1);
  return splitmix64(x);
}

inline uint64_t hash_str(const std::string& s) {
  uint64_t h = 1469598103934665603ULL;
  for (unsigned char c : s) {
    h ^= c;
    h *= 1099511628211ULL;
  }
  return h;
}

struct Rng {
  uint64_t s[4];
  explicit Rng(uint64_t seed = 1) { reseed(seed); }
  void reseed(uint64_t seed) {
    uint64_t x = seed;
    for (auto& v : s) v = splitmix64(x);
  }
  static uint64_t rotl(uint64_t x, int k) { return (x << k) | (x >> (64 - k)); }
  uint64_t next() {
    const uint64_t result = rotl(s[1] * 5, 7) * 9;
    const uint64_t t = s[1] << 17;
    s[2] ^= s[0];
    s[3] ^= s[1];
    s[1] ^= s[2];
    s[0] ^= s[3];
    s[2] ^= t;
    s[3] = rotl(s[3], 45);
    return result;
  }
  // uniform in [0, n)
  uint64_t below(uint64_t n) { return n ? next() % n : 0; }
  int range(int lo, int hi) { return lo + static_cast<int>(below(static_cast<uint64_t>(hi - lo + 1))); }
  bool coin() { return (next() >> 33) & 1; }
  // uniform in [0,1) with 53 bits
  double unit() { return (next() >> 11) * (1.0 / 9007199254740992.0); }
  long double unitl() { return static_cast<long double>(next() >> 1) / 9223372036854775808.0L; }
  // full-precision mantissa in [1,2) for T
  template <typename T>
  T mantissa() {
    if constexpr (std::is_same_v<T, float>) {
      return 1.0f + static_cast<float>(next() >> 41) * (1.0f / 8388608.0f);
    } else if constexpr (std::is_same_v<T, double>) {
      return 1.0 + static_cast<double>(next() >> 12) * (1.0 / 4503599627370496.0);
    } else {
      return 1.0L + static_cast<long double>(next() >> 1) / 9223372036854775808.0L;
    }
  }
  // log-uniform magnitude with binary exponent in [elo, ehi], full random mantissa, random sign if asked
  template <typename T>
  T logu(int elo, int ehi, bool sign = false) {
    T m = mantissa<T>();
    T v = std::ldexp(m, range(elo, ehi));
    return (sign && coin()) ? -v : v;
  }
};

// ------------------------------------------------------------------------------------------------
// numeric-type traits and bit patterns
// ------------------------------------------------------------------------------------------------
template <typename T> struct Num;
template <> struct Num<float> {
  static constexpr const char* name = "float";
  static constexpr int p = 24, emin = -126, emax = 127, idx = 0;
};
template <> struct Num<double> {
  static constexpr const char* name = "double";
  static constexpr int p = 53, emin = -1022, emax = 1023, idx = 1;
};
template <> struct Num<long double> {
  static constexpr const char* name = "long double";
  static constexpr int p = 64, emin = -16382, emax = 16383, idx = 2;
};

template <typename T>
inline std::string bits(T v) {
  char buf[64];
  if constexpr (std::is_same_v<T, float>) {
    uint32_t u;
    std::memcpy(&u, &v, 4);
    std::snprintf(buf, sizeof buf, "0x%08" PRIx32, u);
  } else if constexpr (std::is_same_v<T, double>) {
    uint64_t u;
    std::memcpy(&u, &v, 8);
    std::snprintf(buf, sizeof buf, "0x%016" PRIx64, u);
  } else {
    uint64_t lo;
    uint16_t hi;
    std::memcpy(&lo, &v, 8);
    std::memcpy(&hi, reinterpret_cast<const char*>(&v) + 8, 2);
    std::snprintf(buf, sizeof buf, "0x%04x%016" PRIx64, hi, lo);
  }
  return buf;
}

template <typename T>
inline bool same_bits(T a, T b) {
  if constexpr (std::is_same_v<T, long double>) {
    return std::memcmp(&a, &b, 10) == 0;
  } else {
    return std::memcmp(&a, &b, sizeof(T)) == 0;
  }
}

// bit-identical, or both NaN
template <typename T>
inline bool same_value_bits(T a, T b) {
  if (a != a && b != b) return true;
  return same_bits(a, b);
}

inline std::string q2s(f128 v, int digits = 36) {
  char buf[128];
  quadmath_snprintf(buf, sizeof buf, "%.*Qg", digits, v);
  return buf;
}

template <typename T>
inline std::string dec(T v) {
  char buf[128];
  if constexpr (std::is_same_v<T, f128>) {
    return q2s(v);
  } else if constexpr (std::is_same_v<T, long double>) {
    std::snprintf(buf, sizeof buf, "%.21Lg", v);
  } else if constexpr (std::is_same_v<T, double>) {
    std::snprintf(buf, sizeof buf, "%.17g", v);
  } else {
    std::snprintf(buf, sizeof buf, "%.9g", static_cast<double>(v));
  }
  return buf;
}

// one unit in the last place of T at the magnitude of the exact value `ref`
template <typename T>
inline f128 ulp_at(f128 ref) {
  f128 a = fabsq(ref);
  int e;
  if (a == 0) {
    e = Num<T>::emin;
  } else {
    int ex;
    frexpq(a, &ex);  // a = m * 2^ex, m in [0.5,1)
    e = ex - 1;
    if (e < Num<T>::emin) e = Num<T>::emin;
    if (e > Num<T>::emax) e = Num<T>::emax;
  }
  return ldexpq(1.0Q, e - (Num<T>::p - 1));
}

// |got - ref| in ulps of T at ref (infinity if got is not finite while ref is representable)
template <typename T>
inline double ulps(T got, f128 ref) {
  if (got != got) return std::numeric_limits<double>::infinity();
  if (std::isinf(static_cast<long double>(got))) {
    f128 mx = static_cast<f128>(std::numeric_limits<T>::max());
    if (fabsq(ref) > mx && ((ref > 0) == (got > 0))) return 0.0;
    return std::numeric_limits<double>::infinity();
  }
  f128 d = fabsq(static_cast<f128>(got) - ref);
  f128 r = d / ulp_at<T>(ref);
  if (r > 1e300Q) return 1e300;
  return static_cast<double>(r);
}

// ------------------------------------------------------------------------------------------------
// JSON emission
// ------------------------------------------------------------------------------------------------
inline std::string jesc(const std::string& s) {
  std::string o;
  o.reserve(s.size() + 2);
  for (unsigned char c : s) {
    switch (c) {
      case '"': o += "\\\""; break;
      case '\\': o += "\\\\"; break;
      case '\n': o += "\\n"; break;
      case '\r': o += "\\r"; break;
      case '\t': o += "\\t"; break;
      default:
        if (c < 0x20) {
          char b[8];
          std::snprintf(b, sizeof b, "\\u%04x", c);
          o += b;
        } else {
          o += static_cast<char>(c);
        }
    }
  }
  return o;
}

// bytes that may be invalid UTF-8: escape everything outside printable ASCII as \u00XX
inline std::string jesc_bytes(const std::string& s) {
  std::string o;
  for (unsigned char c : s) {
    if (c == '"' || c == '\\' || c < 0x20 || c >= 0x7f) {
      char b[8];
      std::snprintf(b, sizeof b, "\\u%04x", c);
      o += b;
    } else {
      o += static_cast<char>(c);
    }
  }
  return o;
}

// A JSON object under construction: J().s("k","v").i("n",3).raw("x","[1,2]").str()
struct J {
  std::string b = "{";
  bool first = true;
  void key(const std::string& k) {
    if (!first) b += ",";
    first = false;
    b += "\"" + jesc(k) + "\":";
  }
  J& s(const std::string& k, const std::string& v) {
    key(k);
    b += "\"" + jesc(v) + "\"";
    return *this;
  }
  J& sb(const std::string& k, const std::string& v) {
    key(k);
    b += "\"" + jesc_bytes(v) + "\"";
    return *this;
  }
  J& i(const std::string& k, long long v) {
    key(k);
    b += std::to_string(v);
    return *this;
  }
  J& d(const std::string& k, double v) {
    key(k);
    if (v != v || std::isinf(v)) {
      b += v != v ? "\"nan\"" : (v > 0 ? "\"inf\"" : "\"-inf\"");
    } else {
      char buf[40];
      std::snprintf(buf, sizeof buf, "%.6g", v);
      b += buf;
    }
    return *this;
  }
  J& raw(const std::string& k, const std::string& v) {
    key(k);
    b += v;
    return *this;
  }
  template <typename T>
  J& num(const std::string& k, T v) {  // value as {"dec":..., "bits":...}
    key(k);
    b += "{\"dec\":\"" + dec(v) + "\",\"bits\":\"" + bits(v) + "\"}";
    return *this;
  }
  J& q(const std::string& k, f128 v) { return s(k, q2s(v)); }
  std::string str() const { return b + "}"; }
};

template <typename T, size_t N>
inline std::string jarr(const std::array<T, N>& a) {
  std::string o = "[";
  for (size_t i = 0; i < N; ++i) {
    if (i) o += ",";
    o += "{\"dec\":\"" + dec(a[i]) + "\",\"bits\":\"" + bits(a[i]) + "\"}";
  }
  return o + "]";
}

inline std::string jlist(const std::vector<std::string>& v) {
  std::string o = "[";
  for (size_t i = 0; i < v.size(); ++i) {
    if (i) o += ",";
    o += "\"" + jesc(v[i]) + "\"";
  }
  return o + "]";
}

// ------------------------------------------------------------------------------------------------
// arguments
// ------------------------------------------------------------------------------------------------
struct Args {
  uint64_t seed = 1;
  std::string tier = "quick";
  int shard = 0, nshards = 1;
  std::string out = ".";
  std::string replay;
  std::map<std::string, std::string> kv;
  bool thorough() const { return tier == "thorough"; }
  long long n(const std::string& k, long long dflt) const {
    auto it = kv.find(k);
    return it == kv.end() ? dflt : std::atoll(it->second.c_str());
  }
  std::string get(const std::string& k, const std::string& dflt = "") const {
    auto it = kv.find(k);
    return it == kv.end() ? dflt : it->second;
  }
  bool mine(uint64_t index) const { return static_cast<int>(index % static_cast<uint64_t>(nshards)) == shard; }
};

inline Args parse_args(int argc, char** argv) {
  Args a;
  for (int i = 1; i < argc; ++i) {
    std::string k = argv[i];
    auto val = [&]() -> std::string { return i + 1 < argc ? argv[++i] : ""; };
    if (k == "--seed") a.seed = std::strtoull(val().c_str(), nullptr, 10);
    else if (k == "--tier") a.tier = val();
    else if (k == "--out") a.out = val();
    else if (k == "--replay") a.replay = val();
    else if (k == "--shard") {
      std::string v = val();
      std::sscanf(v.c_str(), "%d/%d", &a.shard, &a.nshards);
      if (a.nshards < 1) a.nshards = 1;
    } else if (k.rfind("--", 0) == 0) {
      a.kv[k.substr(2)] = val();
    }
  }
  return a;
}

// ------------------------------------------------------------------------------------------------
// reporter
// ------------------------------------------------------------------------------------------------
struct Reporter {
  std::string out;
  uint64_t evaluations = 0;
  std::unordered_set<uint64_t> distinct;
  std::map<std::string, long long> counters;
  std::map<std::string, double> maxima;
  std::map<std::string, std::set<std::string>> lists;
  std::vector<std::string> samples;
  std::map<std::string, int> per_key;  // violations per key
  long long violations = 0;
  std::ofstream vf;
  size_t max_samples = 6;
  int max_per_key = 3;
  bool breadcrumbs = true;
  FILE* crumb_file = nullptr;
  size_t crumb_len = 0;

  explicit Reporter(const std::string& out_dir) : out(out_dir) {
    vf.open(out + "/violations.jsonl", std::ios::out | std::ios::trunc);
  }

  void eval(uint64_t n = 1) { evaluations += n; }
  void count(const std::string& k, long long n = 1) { counters[k] += n; }
  void maxi(const std::string& k, double v) {
    auto it = maxima.find(k);
    if (it == maxima.end() || v > it->second) maxima[k] = v;
  }
  void list(const std::string& k, const std::string& v) {
    auto& s = lists[k];
    if (s.size() < 400) s.insert(v);
  }
  // a distinct non-trivial case: key names (program instance, configuration, input class)
  void nontrivial(const std::string& key) { distinct.insert(hash_str(key)); }
  void nontrivial(uint64_t key) { distinct.insert(key); }
  bool want_sample() const { return samples.size() < max_samples; }
  // sparse sampling that still guarantees at least one sample per process
  bool want_sample(uint64_t id, uint64_t every) const { return samples.empty() || (samples.size() < max_samples && id % every == 0); }
  void sample(const std::string& json) {
    if (samples.size() < max_samples) samples.push_back(json);
  }
  // Write the breadcrumb: first line is the canonical call-site key (used if the process dies).
  void crumb(const std::string& key, const std::string& detail = "") {
    if (!breadcrumbs) return;
    if (!crumb_file) crumb_file = std::fopen((out + "/breadcrumb.txt").c_str(), "w");
    if (crumb_file) {
      // one write at offset 0, padded so that a shorter crumb overwrites a longer one
      std::string line = key + "\n" + detail + "\n";
      if (line.size() < crumb_len) line.append(crumb_len - line.size(), ' ');
      crumb_len = line.size();
      std::rewind(crumb_file);
      std::fwrite(line.data(), 1, line.size(), crumb_file);
      std::fflush(crumb_file);
    }
  }
  void violation(const std::string& key, const std::string& detail_json) {
    ++violations;
    int& n = per_key[key];
    ++n;
    if (n <= max_per_key) {
      vf << "{\"key\":\"" << jesc(key) << "\",\"detail\":" << detail_json << "}\n";
      vf.flush();
    }
  }
  int finish() {
    vf.close();
    std::ofstream f(out + "/summary.json");
    f << "{\"evaluations\":" << evaluations << ",\"distinct_nontrivial\":" << distinct.size()
      << ",\"violations\":" << violations << ",\"counters\":{";
    bool first = true;
    for (auto& kv : counters) {
      f << (first ? "" : ",") << "\"" << jesc(kv.first) << "\":" << kv.second;
      first = false;
    }
    f << "},\"maxima\":{";
    first = true;
    for (auto& kv : maxima) {
      double v = kv.second;
      if (v != v || std::isinf(v)) v = 1e308;
      char buf[40];
      std::snprintf(buf, sizeof buf, "%.6g", v);
      f << (first ? "" : ",") << "\"" << jesc(kv.first) << "\":" << buf;
      first = false;
    }
    f << "},\"lists\":{";
    first = true;
    for (auto& kv : lists) {
      f << (first ? "" : ",") << "\"" << jesc(kv.first) << "\":[";
      bool f2 = true;
      for (auto& s : kv.second) {
        f << (f2 ? "" : ",") << "\"" << jesc(s) << "\"";
        f2 = false;
      }
      f << "]";
      first = false;
    }
    f << "},\"violation_keys\":{";
    first = true;
    for (auto& kv : per_key) {
      f << (first ? "" : ",") << "\"" << jesc(kv.first) << "\":" << kv.second;
      first = false;
    }
    f << "},\"samples\":[";
    for (size_t i = 0; i < samples.size(); ++i) f << (i ? "," : "") << samples[i];
    f << "]}\n";
    f.close();
    if (crumb_file) std::fclose(crumb_file);
    std::remove((out + "/breadcrumb.txt").c_str());
    return violations ? 1 : 0;
  }
};

// Run `body` so that no exception escapes: anything but bad_alloc is a violation of C20 and of the
// property whose monitor is running (recorded under the given key).
template <typename F>
inline bool guarded(Reporter& R, const std::string& key, F&& body) {
  try {
    body();
    return true;
  } catch (const std::bad_alloc&) {
    R.count("bad_alloc");
    return false;
  } catch (const std::exception& e) {
    R.violation(key + "|exception", J().s("what", e.what()).str());
    return false;
  } catch (...) {
    R.violation(key + "|exception", J().s("what", "non-std exception").str());
    return false;
  }
}

template <typename F>
inline void for_each_numeric(F&& f) {
  f(float{});
  f(double{});
  f(static_cast<long double>(0));
}

}  // namespace verif
