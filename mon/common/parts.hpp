// Splitting one monitor over several translation units so that the build parallelises.
// Every TU is the same source compiled with -DVERIF_PART=k -DVERIF_PARTS=n; the TU with k == 0 also
// defines main().  A part handles the type-list entries with index % n == k.
#pragma once
#include "verif.hpp"

#ifndef VERIF_PARTS
#define VERIF_PARTS 1
#endif
#ifndef VERIF_PART
#define VERIF_PART 0
#endif
#define VERIF_CAT2(a, b) a##b
#define VERIF_CAT(a, b) VERIF_CAT2(a, b)
#define VERIF_THIS_PART VERIF_CAT(verif_part_, VERIF_PART)
#define VERIF_IN_PART(I) (((I) % VERIF_PARTS) == VERIF_PART)

#define VERIF_DECL(k) void verif_part_##k(verif::Reporter&, const verif::Args&);
VERIF_DECL(0) VERIF_DECL(1) VERIF_DECL(2) VERIF_DECL(3) VERIF_DECL(4) VERIF_DECL(5) VERIF_DECL(6) VERIF_DECL(7)
VERIF_DECL(8) VERIF_DECL(9) VERIF_DECL(10) VERIF_DECL(11) VERIF_DECL(12) VERIF_DECL(13) VERIF_DECL(14) VERIF_DECL(15)
#undef VERIF_DECL

#if VERIF_PART == 0
inline void verif_run_parts(verif::Reporter& R, const verif::Args& A) {
  verif_part_0(R, A);
#if VERIF_PARTS > 1
  verif_part_1(R, A);
#endif
#if VERIF_PARTS > 2
  verif_part_2(R, A);
#endif
#if VERIF_PARTS > 3
  verif_part_3(R, A);
#endif
#if VERIF_PARTS > 4
  verif_part_4(R, A);
#endif
#if VERIF_PARTS > 5
  verif_part_5(R, A);
#endif
#if VERIF_PARTS > 6
  verif_part_6(R, A);
#endif
#if VERIF_PARTS > 7
  verif_part_7(R, A);
#endif
#if VERIF_PARTS > 8
  verif_part_8(R, A);
#endif
#if VERIF_PARTS > 9
  verif_part_9(R, A);
#endif
#if VERIF_PARTS > 10
  verif_part_10(R, A);
#endif
#if VERIF_PARTS > 11
  verif_part_11(R, A);
#endif
#if VERIF_PARTS > 12
  verif_part_12(R, A);
#endif
#if VERIF_PARTS > 13
  verif_part_13(R, A);
#endif
#if VERIF_PARTS > 14
  verif_part_14(R, A);
#endif
#if VERIF_PARTS > 15
  verif_part_15(R, A);
#endif
}
#endif
