// C06 (second half): printing, equality, ordering and hash of PhQ::Dimensions are those of the exponent
// 7-tuple.  Oracles: an independent formatter and std::array<int,7> lexicographic comparison.
#include <algorithm>
#include <set>
#include <unordered_set>

#include "PhQ/Dimensions.hpp"
#include "common/verif.hpp"

using namespace verif;
using Tup = std::array<int, 7>;

static PhQ::Dimensions make(const Tup& t) {
  using namespace PhQ::Dimension;
  return PhQ::Dimensions{Time{static_cast<int8_t>(t[0])}, Length{static_cast<int8_t>(t[1])},
                         Mass{static_cast<int8_t>(t[2])}, ElectricCurrent{static_cast<int8_t>(t[3])},
                         Temperature{static_cast<int8_t>(t[4])}, SubstanceAmount{static_cast<int8_t>(t[5])},
                         LuminousIntensity{static_cast<int8_t>(t[6])}};
}

static std::string model_print(const Tup& t) {
  static const char* sym[7] = {"T", "L", "M", "I", "Θ", "N", "J"};
  std::string s;
  for (int i = 0; i < 7; ++i) {
    if (t[i] == 0) continue;
    if (!s.empty()) s += "·";
    s += sym[i];
    if (t[i] > 1) s += "^" + std::to_string(t[i]);
    else if (t[i] < 0) s += "^(" + std::to_string(t[i]) + ")";
  }
  return s.empty() ? "1" : s;
}

static std::string tup_json(const Tup& t) {
  std::string s = "[";
  for (int i = 0; i < 7; ++i) s += (i ? "," : "") + std::to_string(t[i]);
  return s + "]";
}

static void check_read_back(Reporter& R, const Tup& t) {
  const PhQ::Dimensions d = make(t);
  const Tup got = {d.Time().Value(), d.Length().Value(), d.Mass().Value(), d.ElectricCurrent().Value(),
                   d.Temperature().Value(), d.SubstanceAmount().Value(), d.LuminousIntensity().Value()};
  R.eval();
  if (got != t) R.violation("C06|dimensions|accessors", J().raw("tuple", tup_json(t)).raw("got", tup_json(got)).str());
}

static void check_print(Reporter& R, const Tup& t) {
  const PhQ::Dimensions d = make(t);
  const std::string got = d.Print();
  const std::string want = model_print(t);
  std::ostringstream os;
  os << d;
  R.eval(2);
  if (got != want) {
    R.violation("C06|dimensions|print", J().raw("tuple", tup_json(t)).s("got", got).s("want", want).str());
  }
  if (os.str() != got) {
    R.violation("C06|dimensions|stream", J().raw("tuple", tup_json(t)).s("streamed", os.str()).s("printed", got).str());
  }
  if (R.want_sample()) R.sample(J().raw("tuple", tup_json(t)).s("printed", got).str());
}

static void check_pair(Reporter& R, const Tup& a, const Tup& b) {
  const PhQ::Dimensions x = make(a), y = make(b);
  const bool lt = a < b, eq = a == b, gt = a > b;
  R.eval(7);
  bool ok = (x < y) == lt && (x == y) == eq && (x > y) == gt && (x != y) == !eq && (x <= y) == (lt || eq) &&
            (x >= y) == (gt || eq);
  if (!ok) {
    std::string which;
    if ((x < y) != lt) which += "<";
    if ((x == y) != eq) which += "==";
    if ((x > y) != gt) which += ">";
    if ((x != y) != !eq) which += "!=";
    if ((x <= y) != (lt || eq)) which += "<=";
    if ((x >= y) != (gt || eq)) which += ">=";
    R.violation("C06|dimensions|compare|" + which, J().raw("a", tup_json(a)).raw("b", tup_json(b)).str());
  }
  if (eq && std::hash<PhQ::Dimensions>()(x) != std::hash<PhQ::Dimensions>()(y)) {
    R.violation("C06|dimensions|hash", J().raw("a", tup_json(a)).str());
  }
  // first differing position = which branch of the cascade decided
  int k = 0;
  while (k < 7 && a[k] == b[k]) ++k;
  R.nontrivial(mix(0xC06, static_cast<uint64_t>(k) * 4 + (lt ? 1 : gt ? 2 : 0)));
}

int main(int argc, char** argv) {
  Args A = parse_args(argc, argv);
  Reporter R(A.out);
  Rng rng(mix(A.seed, 0xC06 + A.shard));
  const int lo = A.thorough() ? -2 : -1, hi = A.thorough() ? 3 : 1;
  std::vector<Tup> box;
  {
    Tup t;
    std::function<void(int)> rec = [&](int i) {
      if (i == 7) {
        box.push_back(t);
        return;
      }
      for (int v = lo; v <= hi; ++v) {
        t[i] = v;
        rec(i + 1);
      }
    };
    rec(0);
  }
  R.count("box_tuples", static_cast<long long>(box.size()));
  // 1. printing of every tuple in the box (sharded), plus int8 extremes in every slot
  for (size_t i = 0; i < box.size(); ++i) {
    if (!A.mine(i)) continue;
    R.crumb("C06|dimensions|print");
    check_print(R, box[i]);
    check_read_back(R, box[i]);
    R.nontrivial(mix(0x9917, i));
  }
  if (A.shard == 0) {
    for (int slot = 0; slot < 7; ++slot) {
      for (int v : {-128, -127, -100, -10, -9, 2, 9, 10, 99, 100, 126, 127}) {
        Tup t{};
        t[slot] = v;
        check_print(R, t);
        check_read_back(R, t);
        Tup u{};
        u.fill(v);
        check_print(R, u);
      }
    }
  }
  // 2. comparisons: all ordered pairs of the {-1,0,1}^7 sub-grid (sharded by first index), random
  //    pairs of the large box, tie-forcing pairs (equal prefix then a differing slot)
  std::vector<Tup> small;
  for (auto& t : box) {
    bool in = true;
    for (int v : t) in = in && v >= -1 && v <= 1;
    if (in) small.push_back(t);
  }
  R.crumb("C06|dimensions|compare");
  const size_t stride = A.thorough() ? 1 : 3;  // quick: every third left operand (still every right operand)
  for (size_t i = 0; i < small.size(); i += 1) {
    if (!A.mine(i)) continue;
    if ((i / A.nshards) % stride != 0) continue;
    for (size_t j = 0; j < small.size(); ++j) check_pair(R, small[i], small[j]);
  }
  const long long nrand = A.n("pairs", A.thorough() ? 4000000 : 200000) / A.nshards;
  for (long long k = 0; k < nrand; ++k) {
    Tup a = box[rng.below(box.size())];
    Tup b = a;
    const int prefix = rng.range(0, 7);  // slots [0,prefix) equal
    for (int s = prefix; s < 7; ++s) b[s] = rng.range(-128, 127);
    if (rng.coin()) {
      for (int s = prefix + 1; s < 7; ++s) b[s] = a[s];  // differ in exactly one slot
    }
    check_pair(R, a, b);
    check_pair(R, b, a);
  }
  // 3. containers: a shuffled multiset inserted into std::set / std::unordered_set
  {
    R.crumb("C06|dimensions|containers");
    std::vector<Tup> items;
    const size_t n = A.thorough() ? 20000 : 3000;
    for (size_t i = 0; i < n; ++i) items.push_back(box[rng.below(box.size())]);
    for (size_t i = 0; i < n / 2; ++i) items.push_back(items[rng.below(items.size())]);  // duplicates
    std::set<Tup> model(items.begin(), items.end());
    std::set<PhQ::Dimensions> s;
    std::unordered_set<PhQ::Dimensions> us;
    for (auto& t : items) {
      s.insert(make(t));
      us.insert(make(t));
    }
    R.eval(2);
    if (s.size() != model.size() || us.size() != model.size()) {
      R.violation("C06|dimensions|containers|size", J().i("model", model.size()).i("set", s.size()).i("unordered", us.size()).str());
    }
    for (auto& t : items) {
      R.eval(2);
      if (s.find(make(t)) == s.end() || us.find(make(t)) == us.end()) {
        R.violation("C06|dimensions|containers|find", J().raw("tuple", tup_json(t)).str());
      }
    }
    // iteration order of std::set equals model order
    auto it = model.begin();
    bool order_ok = true;
    for (auto& d : s) {
      if (!(d == make(*it))) order_ok = false;
      ++it;
    }
    R.eval();
    if (!order_ok) R.violation("C06|dimensions|containers|order", "{}");
    // hash collisions among distinct tuples: reported, not judged
    std::unordered_set<size_t> hs;
    for (auto& t : model) hs.insert(std::hash<PhQ::Dimensions>()(make(t)));
    R.count("distinct_tuples_hashed", static_cast<long long>(model.size()));
    R.count("distinct_hash_values", static_cast<long long>(hs.size()));
  }
  return R.finish();
}
