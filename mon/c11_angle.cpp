// C11: the angle between two non-zero finite vectors is a real number in [0, pi], symmetric, independent of
// the lengths, and agrees with atan2(|a x b|, a.b) within the conditioning of the arc-cosine.
// Programs: every (A, B) for which PhQ::Angle<T> is constructible from (const A&, const B&) among the 92
// quantity types + Vector + PlanarVector, and every member a.Angle(b).  One numeric type per part.
#include "allq.hpp"
#include "common/parts.hpp"
#include "common/traits.hpp"

using namespace verif;

#if VERIF_PARTS != 3
#error "c11_angle is built in exactly three parts (one per numeric type)"
#endif
#if VERIF_PART == 0
using T = float;
#elif VERIF_PART == 1
using T = double;
#else
using T = long double;
#endif

// vector-like operands: quantities of shape 2/3, directions, raw vectors
template <typename X, typename = void> struct Vec { static constexpr int n = 0; };
template <typename U> struct Vec<PhQ::Vector<U>> {
  static constexpr int n = 3;
  static PhQ::Vector<U> make(const std::array<U, 3>& a) { return PhQ::Vector<U>(a[0], a[1], a[2]); }
  static std::array<U, 3> arr(const PhQ::Vector<U>& v) { return {v.x(), v.y(), v.z()}; }
};
template <typename U> struct Vec<PhQ::PlanarVector<U>> {
  static constexpr int n = 2;
  static PhQ::PlanarVector<U> make(const std::array<U, 2>& a) { return PhQ::PlanarVector<U>(a[0], a[1]); }
  static std::array<U, 2> arr(const PhQ::PlanarVector<U>& v) { return {v.x(), v.y()}; }
};
template <typename Q, typename = void> struct QN { static constexpr int n = 0; };
template <typename Q>
struct QN<Q, std::void_t<decltype(std::declval<const Q&>().Value())>> {
  static constexpr int n = Shape<std::decay_t<decltype(std::declval<const Q&>().Value())>>::n;
};
template <typename Q>
struct Vec<Q, std::enable_if_t<(QN<Q>::n == 2 || QN<Q>::n == 3)>> {
  static constexpr int n = n_of<Q>;
  static Q make(const std::array<num_t<Q>, n>& a) { return from_si<Q>(a); }
  static std::array<num_t<Q>, n> arr(const Q& q) { return to_si(q); }
};

template <typename A, typename B, typename = void> struct has_member_angle : std::false_type {};
template <typename A, typename B>
struct has_member_angle<A, B, std::void_t<decltype(std::declval<const A&>().Angle(std::declval<const B&>()))>>
  : std::true_type {};

struct V3 { f128 x, y, z; };
template <size_t N>
static V3 embed(const std::array<T, N>& a) {
  V3 v{static_cast<f128>(a[0]), static_cast<f128>(a[1]), 0};
  if constexpr (N == 3) v.z = static_cast<f128>(a[2]);
  return v;
}
static f128 ref_angle(const V3& a, const V3& b) {
  const f128 cx = a.y * b.z - a.z * b.y, cy = a.z * b.x - a.x * b.z, cz = a.x * b.y - a.y * b.x;
  const f128 cn = sqrtq(cx * cx + cy * cy + cz * cz);
  const f128 d = a.x * b.x + a.y * b.y + a.z * b.z;
  return atan2q(cn, d);
}

static const f128 PI_Q = 3.14159265358979323846264338327950288419716939937510582097494459Q;
static const int kE = std::is_same_v<T, float> ? 28 : std::is_same_v<T, double> ? 280 : 4000;
static const double kBound = 8.0 * std::sqrt(static_cast<double>(std::numeric_limits<T>::epsilon()));

enum Cls { RANDOM, PARALLEL, ANTIPARALLEL, NEAR_PARALLEL, NEAR_ANTIPARALLEL, AXIS, PERPENDICULAR, NCLS };
static const char* kCls[NCLS] = {"random", "parallel", "antiparallel", "nearly-parallel", "nearly-antiparallel",
                                 "axis-aligned", "perpendicular"};

template <size_t N>
static std::array<T, N> rand_vec(Rng& rng, int e) {
  std::array<T, N> a;
  for (auto& c : a) c = std::ldexp((rng.mantissa<T>() - static_cast<T>(1.5)) * 2, e);  // in (-1,1)*2^e
  if (a[0] == 0) a[0] = std::ldexp(static_cast<T>(1), e);
  return a;
}

template <size_t NA, size_t NB>
static void gen_pair(Rng& rng, int cls, std::array<T, NA>& a, std::array<T, NB>& b) {
  const int ea = rng.range(-kE, kE), eb = rng.range(-kE, kE);
  a = rand_vec<NA>(rng, ea);
  b = rand_vec<NB>(rng, eb);
  constexpr size_t N = NA < NB ? NA : NB;
  auto scale_copy = [&](T c) {
    b.fill(0);
    for (size_t i = 0; i < N; ++i) b[i] = c * a[i];
    if constexpr (NA > N) a[NA - 1] = 0;  // keep a inside the common subspace
  };
  const T c = std::ldexp(static_cast<T>(1) + static_cast<T>(rng.unit()) * static_cast<T>(0.999) + static_cast<T>(0.0003),
                         eb - ea);
  switch (cls) {
    case RANDOM: break;
    case PARALLEL: scale_copy(c); break;
    case ANTIPARALLEL: scale_copy(-c); break;
    case NEAR_PARALLEL:
    case NEAR_ANTIPARALLEL: {
      scale_copy(cls == NEAR_PARALLEL ? c : -c);
      const T delta = static_cast<T>(std::pow(10.0, -(1.0 + rng.unit() * 19.0)));
      auto p = rand_vec<NB>(rng, eb);
      for (size_t i = 0; i < NB; ++i) b[i] += delta * p[i];
      break;
    }
    case AXIS: {
      a.fill(0);
      b.fill(0);
      a[rng.below(NA)] = std::ldexp(rng.coin() ? static_cast<T>(1) : static_cast<T>(-1.5), ea);
      b[rng.below(NB)] = std::ldexp(rng.coin() ? static_cast<T>(1) : static_cast<T>(-1.25), eb);
      break;
    }
    case PERPENDICULAR: {
      // rotate a by 90 degrees in the xy-plane
      b.fill(0);
      b[0] = -a[1];
      b[1] = a[0];
      if constexpr (NA == 3) a[2] = 0;
      for (auto& v : b) v = std::ldexp(v, eb - ea);
      break;
    }
  }
}

template <size_t N>
static bool nonzero(const std::array<T, N>& a) {
  for (auto v : a) {
    if (v != 0) return true;
  }
  return false;
}

static std::string g_name_a, g_name_b;

template <typename A, typename B, typename F>
static void run_pair(Reporter& R, const Args& A_, const std::string& form, uint64_t pindex, F&& angle_of) {
  using VA = Vec<A>;
  using VB = Vec<B>;
  constexpr size_t NA = VA::n, NB = VB::n;
  const std::string key = "C11|" + form + "|" + Num<T>::name;
  const long long K = A_.n("pairs", A_.thorough() ? 40000 : 4000);
  Rng rng(mix(mix(A_.seed, 0xC11), mix(pindex, hash_str(form))));
  R.crumb(key);
  for (long long i = 0; i < K; ++i) {
    const int cls = static_cast<int>(i % NCLS);
    std::array<T, NA> a;
    std::array<T, NB> b;
    gen_pair<NA, NB>(rng, cls, a, b);
    if (!nonzero(a) || !nonzero(b)) continue;
    guarded(R, key, [&] {
      const A qa = VA::make(a);
      const B qb = VB::make(b);
      // what the library stores (directions normalise) is what the oracle sees
      const auto sa = VA::arr(qa);
      const auto sb = VB::arr(qb);
      if (!nonzero(sa) || !nonzero(sb)) return;
      const T th = angle_of(qa, qb);
      const f128 ref = ref_angle(embed(sa), embed(sb));
      R.eval();
      const std::string k2 = key + "|" + kCls[cls];
      auto detail = [&](const char* what) {
        return J().s("form", form).s("class", kCls[cls]).s("what", what).raw("a", jarr(sa)).raw("b", jarr(sb))
            .num("angle", th).q("atan2_reference", ref).str();
      };
      if (th != th) {
        R.violation(k2 + "|nan", detail("NaN"));
        return;
      }
      const T pi_T = static_cast<T>(PI_Q);
      if (th < 0 || th > std::nextafter(pi_T, static_cast<T>(4))) R.violation(k2 + "|range", detail("outside [0, pi]"));
      const double err = static_cast<double>(fabsq(static_cast<f128>(th) - ref));
      R.maxi(std::string("max_abs_error_rad_") + Num<T>::name, err);
      if (!(err <= kBound)) R.violation(k2 + "|accuracy", detail("differs from atan2(|a x b|, a.b)"));
      // symmetry, when the library offers the reverse order through the same form
      if constexpr (std::is_invocable_v<F, const B&, const A&>) {
        const T rev = angle_of(qb, qa);
        R.eval();
        if (!same_value_bits(rev, th)) {
          R.count("symmetry_not_bit_identical");
          if (!(std::fabs(static_cast<double>(rev - th)) <= kBound) || rev != rev) {
            R.violation(k2 + "|symmetry", detail("angle(b,a) differs from angle(a,b)"));
          }
        }
      }
      // independence of length: power-of-two rescaling must reproduce the angle bit for bit (directions are
      // re-normalised by their constructor, so they are excluded from the bit-exact form)
      if (i % 4 == 0) {
        std::array<T, NA> a2 = sa;
        std::array<T, NB> b2 = sb;
        const int ka = rng.range(-20, 20), kb = rng.range(-20, 20);
        for (auto& v : a2) v = std::ldexp(v, ka);
        for (auto& v : b2) v = std::ldexp(v, kb);
        const A qa2 = VA::make(a2);
        const B qb2 = VB::make(b2);
        const T th2 = angle_of(qa2, qb2);
        R.eval();
        const bool exact_expected = !is_direction<A>::value && !is_direction<B>::value;
        if (exact_expected ? !same_value_bits(th2, th) : !(std::fabs(static_cast<double>(th2 - th)) <= 2 * kBound)) {
          R.violation(k2 + "|length-dependence",
                      J().s("form", form).raw("a", jarr(sa)).raw("b", jarr(sb)).i("scale_a_log2", ka).i("scale_b_log2", kb)
                          .num("angle", th).num("angle_rescaled", th2).str());
        }
      }
      R.nontrivial(hash_str(k2));
      if (R.want_sample() && cls == PARALLEL) R.sample(detail("sample"));
    });
  }
  R.count("forms_" + std::string(Num<T>::name));
  R.list("forms", form);
}

static uint64_t g_pindex = 0;

template <typename A, typename B>
static void try_pair(Reporter& R, const Args& Ar, const char* na, const char* nb) {
  if constexpr (Vec<A>::n != 0 && Vec<B>::n != 0) {
    ++g_pindex;
    if constexpr (std::is_constructible_v<PhQ::Angle<T>, const A&, const B&>) {
      if (Ar.mine(g_pindex)) {
        const std::string form = std::string("Angle(") + na + "," + nb + ")";
        auto f = [](const auto& x, const auto& y) -> std::enable_if_t<
                     std::is_constructible_v<PhQ::Angle<T>, decltype(x), decltype(y)>, T> {
          return PhQ::Angle<T>(x, y).Value();
        };
        run_pair<A, B>(R, Ar, form, g_pindex, f);
      }
    }
    if constexpr (has_member_angle<A, B>::value) {
      if (Ar.mine(g_pindex + 7)) {
        const std::string form = std::string(na) + ".Angle(" + nb + ")";
        auto f = [](const auto& x, const auto& y) -> decltype(x.Angle(y).Value()) { return x.Angle(y).Value(); };
        run_pair<A, B>(R, Ar, form, g_pindex + 100000, f);
      }
    }
  }
}

template <typename A>
static void for_b(Reporter& R, const Args& Ar, const char* na) {
#define X(Q, I) try_pair<A, PhQ::Q<T>>(R, Ar, na, #Q);
  VERIF_QUANTITIES(X)
#undef X
  try_pair<A, PhQ::Vector<T>>(R, Ar, na, "Vector");
  try_pair<A, PhQ::PlanarVector<T>>(R, Ar, na, "PlanarVector");
}

void VERIF_THIS_PART(Reporter& R, const Args& Ar) {
  g_pindex = 0;
#define X(Q, I)                                    \
  if constexpr (Vec<PhQ::Q<T>>::n != 0) {          \
    for_b<PhQ::Q<T>>(R, Ar, #Q);                   \
  }
  VERIF_QUANTITIES(X)
#undef X
  for_b<PhQ::Vector<T>>(R, Ar, "Vector");
  for_b<PhQ::PlanarVector<T>>(R, Ar, "PlanarVector");
}

#if VERIF_PART == 0
int main(int argc, char** argv) {
  Args A = parse_args(argc, argv);
  Reporter R(A.out);
  verif_run_parts(R, A);
  return R.finish();
}
#endif
