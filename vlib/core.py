"""Shared machinery for the /verif checks: build cache, sharded runner, known-findings
matching, evidence writer.  Python standard library only."""
import concurrent.futures as cf
import hashlib
import json
import os
import shutil
import subprocess
import sys
import time

VERIF = os.path.dirname(os.path.dirname(os.path.abspath(__file__)))
REPO = os.environ.get("VERIF_REPO", "/repo")
INCLUDE = os.path.join(REPO, "include")
BUILD = os.path.join(VERIF, "build")
OUT = os.path.join(VERIF, "out")
# evidence is only written for the real repository; runs against a scratch tree (VERIF_REPO) keep theirs apart
EVIDENCE = os.path.join(VERIF, "evidence") if REPO == "/repo" else os.path.join(OUT, "scratch-evidence")
NCPU = max(1, min(16, os.cpu_count() or 1))

GXX = "g++"
CLANGXX = "clang++"

# Strict IEEE: the oracle names an IEEE operation and the hardware must perform exactly that one.
PLAIN_FLAGS = ["-std=c++17", "-fext-numeric-literals", "-O1", "-ffp-contract=off", "-fno-fast-math",
               "-fno-asynchronous-unwind-tables", "-w"]
SAN_FLAGS = ["-std=c++17", "-fext-numeric-literals", "-O0", "-g1", "-fno-omit-frame-pointer", "-ffp-contract=off",
             "-fsanitize=address,undefined", "-fno-sanitize-recover=all",
             "-D_GLIBCXX_DEBUG", "-D_GLIBCXX_ASSERTIONS", "-DVERIF_SAN=1", "-w"]
SAN_ENV = {
    "ASAN_OPTIONS": "abort_on_error=1:detect_leaks=1:detect_stack_use_after_return=1:"
                    "strict_string_checks=1:check_initialization_order=0",
    "UBSAN_OPTIONS": "print_stacktrace=1:halt_on_error=1",
}


class Inconclusive(Exception):
    """Harness failure / not enough observations: exit code 2, never a verdict."""


def log(*a):
    print(*a, flush=True)


# ----------------------------------------------------------------------------------------------
# hashing and the build cache
# ----------------------------------------------------------------------------------------------
_tree_hash = None


def tree_hash():
    """SHA-256 over every file under /repo/include (path + bytes) of the *current* working tree."""
    global _tree_hash
    if _tree_hash is None:
        h = hashlib.sha256()
        for root, dirs, files in os.walk(INCLUDE):
            dirs.sort()
            for f in sorted(files):
                p = os.path.join(root, f)
                h.update(os.path.relpath(p, INCLUDE).encode())
                h.update(b"\0")
                with open(p, "rb") as fh:
                    h.update(fh.read())
                h.update(b"\0")
        _tree_hash = h.hexdigest()[:16]
    return _tree_hash


def tree_dir():
    d = os.path.join(BUILD, tree_hash())
    os.makedirs(d, exist_ok=True)
    try:
        os.utime(d, None)
    except OSError:
        pass
    return d


def prune_cache(keep=4, min_age_s=5400):
    """Keep the `keep` most recently used trees; never remove one used in the last 90 minutes
    (another check may be building in it)."""
    if not os.path.isdir(BUILD):
        return
    ds = [os.path.join(BUILD, d) for d in os.listdir(BUILD)]
    ds = [d for d in ds if os.path.isdir(d)]
    ds.sort(key=lambda d: os.path.getmtime(d), reverse=True)
    now = time.time()
    for d in ds[keep:]:
        if os.path.basename(d) != tree_hash() and now - os.path.getmtime(d) > min_age_s:
            shutil.rmtree(d, ignore_errors=True)


def file_hash(paths):
    h = hashlib.sha256()
    for p in paths:
        h.update(p.encode())
        with open(p, "rb") as fh:
            h.update(fh.read())
    return h.hexdigest()


def common_headers():
    d = os.path.join(VERIF, "mon", "common")
    return sorted(os.path.join(d, f) for f in os.listdir(d))


def gen_dir():
    """Generated headers for the current tree (type lists etc.)."""
    d = os.path.join(tree_dir(), "gen")
    if not os.path.exists(os.path.join(d, ".done")):
        os.makedirs(d, exist_ok=True)
        sys.path.insert(0, VERIF)
        from gen import lists, relations
        lists.generate(INCLUDE, d)
        relations.write_header(INCLUDE, os.path.join(d, "relations.hpp"))
        open(os.path.join(d, ".done"), "w").write("ok")
    return d


class BuildError(Exception):
    def __init__(self, msg, stderr=""):
        super().__init__(msg)
        self.stderr = stderr


class Target:
    """One binary: list of (source, extra_flags) TUs + link flags; content-addressed."""

    def __init__(self, name, sources, flavour="plain", defines=(), compiler=GXX, libs=("-lquadmath",),
                 extra_flags=(), extra_deps=(), include_gen=True, opt=None):
        self.name = name
        self.sources = [s if isinstance(s, tuple) else (s, ()) for s in sources]
        self.flavour = flavour
        self.compiler = compiler
        base = PLAIN_FLAGS if flavour == "plain" else SAN_FLAGS
        self.flags = list(base) + list(extra_flags) + ["-D%s" % d for d in defines]
        if opt and flavour == "plain":
            # heavy template enumerations compile much faster at -O0; IEEE semantics are the same
            self.flags = [opt if f == "-O1" else f for f in self.flags]
        self.libs = list(libs)
        self.extra_deps = list(extra_deps)
        self.include_gen = include_gen

    def _inc(self):
        inc = ["-I", INCLUDE, "-I", os.path.join(VERIF, "mon")]
        if self.include_gen:
            inc += ["-I", gen_dir()]
        return inc

    def key(self):
        deps = common_headers() + self.extra_deps + [s for s, _ in self.sources]
        if self.include_gen:
            g = gen_dir()
            deps += sorted(os.path.join(g, f) for f in os.listdir(g) if f.endswith(".hpp"))
        h = hashlib.sha256()
        h.update(file_hash(deps).encode())
        h.update(repr((self.compiler, self.flags, self.libs, [f for _, f in self.sources])).encode())
        return h.hexdigest()[:12]

    def path(self):
        return os.path.join(tree_dir(), "%s-%s-%s" % (self.name, self.flavour, self.key()))

    def objects(self):
        out = []
        for i, (src, fl) in enumerate(self.sources):
            obj = self.path() + ".%d.o" % i
            cmd = [self.compiler] + self.flags + list(fl) + self._inc() + ["-c", src, "-o", obj]
            out.append((obj, cmd))
        return out

    def link_cmd(self):
        objs = [o for o, _ in self.objects()]
        return [self.compiler] + [f for f in self.flags if f.startswith("-fsanitize") or f.startswith("-O")
                                  or f == "-g1"] + objs + ["-o", self.path() + ".tmp"] + self.libs


def deep(tier, **kw):
    """Extra monitor arguments for the thorough tier (case counts well above the monitors' built-in thorough defaults);
    nothing for the quick tier, which C20 also uses for its sanitizer re-runs."""
    if tier != "thorough":
        return []
    out = []
    for k, v in kw.items():
        out += ["--" + k, str(v)]
    return out


def boost(tier, flavour, **kw):
    """Extra monitor arguments for the quick tier of the plain build (the monitors' built-in quick defaults are sized for
    the sanitizer re-runs of C20, which are 10-30 times slower; the plain binaries finish them in a second)."""
    if tier != "quick" or flavour != "plain":
        return []
    out = []
    for k, v in kw.items():
        out += ["--" + k, str(v)]
    return out


def parted(name, source, nparts, flavour="plain", **kw):
    """A monitor whose single source is compiled nparts times with -DVERIF_PART=k -DVERIF_PARTS=n."""
    tus = [(source, ("-DVERIF_PART=%d" % k, "-DVERIF_PARTS=%d" % nparts)) for k in range(nparts)]
    return Target(name, tus, flavour=flavour, **kw)


def _run_cmd(cmd):
    p = subprocess.run(cmd, stdout=subprocess.PIPE, stderr=subprocess.PIPE, text=True, errors="replace")
    return p.returncode, p.stderr


def _compile_width():
    """Parallel compiler processes: one per core, but no more than the memory available now allows (a translation unit
    that includes every PhQ header needs 2-3 GB under -O0 with the sanitizers)."""
    try:
        for line in open("/proc/meminfo"):
            if line.startswith("MemAvailable:"):
                gb = int(line.split()[1]) / 1048576.0
                return max(2, min(NCPU, int(gb / 3.0)))
    except Exception:
        pass
    return NCPU


def build(targets, quiet=False):
    """Build all targets (compile TUs in parallel, then link). Returns {name: path}.
    Raises BuildError with the compiler output on failure."""
    t0 = time.time()
    todo = [t for t in targets if not os.path.exists(t.path())]
    jobs = []
    for t in todo:
        for obj, cmd in t.objects():
            jobs.append((t, obj, cmd))
    if jobs and not quiet:
        log("[build] %d translation units for %d binaries (tree %s)" % (len(jobs), len(todo), tree_hash()))
    errors = []
    killed = []
    with cf.ThreadPoolExecutor(max_workers=_compile_width()) as ex:
        futs = {ex.submit(_run_cmd, cmd): (t, obj, cmd) for t, obj, cmd in jobs}
        for f in cf.as_completed(futs):
            t, obj, cmd = futs[f]
            rc, err = f.result()
            if rc != 0 and ("Killed signal" in err or "virtual memory exhausted" in err or "out of memory" in err.lower()):
                killed.append((t, obj, cmd))  # the machine ran out of memory, not the code out of correctness
            elif rc != 0:
                errors.append((t.name, " ".join(cmd), err))
    for width in (4, 2, 1):
        if not killed or errors:
            break
        if not quiet:
            log("[build] %d compiler processes were killed (memory); retrying them %d at a time" % (len(killed), width))
        time.sleep(5)
        again = []
        with cf.ThreadPoolExecutor(max_workers=width) as ex:
            futs = {ex.submit(_run_cmd, cmd): (t, obj, cmd) for t, obj, cmd in killed}
            for f in cf.as_completed(futs):
                t, obj, cmd = futs[f]
                rc, err = f.result()
                if rc != 0 and ("Killed signal" in err or "virtual memory exhausted" in err or "out of memory" in err.lower()):
                    again.append((t, obj, cmd))
                    if width == 1:
                        errors.append((t.name, " ".join(cmd), err))
                elif rc != 0:
                    errors.append((t.name, " ".join(cmd), err))
        killed = again
    if errors:
        name, cmd, err = errors[0]
        raise BuildError("compile failed for %s: %s" % (name, cmd), "\n".join(e for _, _, e in errors))
    for t in todo:
        rc, err = _run_cmd(t.link_cmd())
        if rc != 0:
            raise BuildError("link failed for %s" % t.name, err)
        os.replace(t.path() + ".tmp", t.path())
        for obj, _ in t.objects():
            try:
                os.remove(obj)
            except OSError:
                pass
    if todo and not quiet:
        log("[build] done in %.1fs" % (time.time() - t0))
    return {t.name: t.path() for t in targets}


# ----------------------------------------------------------------------------------------------
# running monitors
# ----------------------------------------------------------------------------------------------
def run_dir(prop, tier):
    if COLLECTOR is not None:
        prop = COLLECTOR["prop"] + "-" + prop
    d = os.path.join(OUT, prop, "%s-%d" % (tier, os.getpid()))
    shutil.rmtree(d, ignore_errors=True)
    os.makedirs(d, exist_ok=True)
    # prune older run directories of this property (keep the 3 newest)
    parent = os.path.join(OUT, prop)
    olds = sorted((os.path.join(parent, x) for x in os.listdir(parent)), key=os.path.getmtime, reverse=True)
    for o in olds[6:]:
        shutil.rmtree(o, ignore_errors=True)
    return d


class ShardResult:
    def __init__(self, name, shard, rc, out_dir, stdout, stderr, wall, timed_out):
        self.name, self.shard, self.rc, self.out_dir = name, shard, rc, out_dir
        self.stdout, self.stderr, self.wall, self.timed_out = stdout, stderr, wall, timed_out
        self.summary = None
        self.violations = []
        sp = os.path.join(out_dir, "summary.json")
        if os.path.exists(sp):
            try:
                self.summary = json.load(open(sp))
            except Exception:
                self.summary = None
        vp = os.path.join(out_dir, "violations.jsonl")
        if os.path.exists(vp):
            for line in open(vp, errors="replace"):
                line = line.strip()
                if line:
                    try:
                        self.violations.append(json.loads(line))
                    except Exception:
                        self.violations.append({"key": "unparseable-violation-record", "raw": line[:500]})

    def breadcrumb(self):
        p = os.path.join(self.out_dir, "breadcrumb.txt")
        if os.path.exists(p):
            return open(p, errors="replace").read().strip()[:400]
        return ""


def _run_one(name, binary, args, shard, nshards, out_dir, env, timeout):
    os.makedirs(out_dir, exist_ok=True)
    cmd = [binary] + list(args) + ["--shard", "%d/%d" % (shard, nshards), "--out", out_dir]
    e = dict(os.environ)
    e.update(env or {})
    t0 = time.time()
    timed_out = False
    try:
        p = subprocess.run(cmd, stdout=subprocess.PIPE, stderr=subprocess.PIPE, env=e, timeout=timeout,
                           text=True, errors="replace")
        rc, so, se = p.returncode, p.stdout, p.stderr
    except subprocess.TimeoutExpired as ex:
        rc, timed_out = -999, True
        so = (ex.stdout or b"").decode(errors="replace") if isinstance(ex.stdout, bytes) else (ex.stdout or "")
        se = (ex.stderr or b"").decode(errors="replace") if isinstance(ex.stderr, bytes) else (ex.stderr or "")
    return ShardResult(name, shard, rc, out_dir, so, se, time.time() - t0, timed_out)


def run_sharded(jobs, timeout=1800):
    """jobs: list of dict(name, binary, args, nshards, out, env). Runs all shards of all jobs on NCPU
    processes. Returns list of ShardResult."""
    results = []
    with cf.ThreadPoolExecutor(max_workers=NCPU) as ex:
        futs = []
        for j in jobs:
            n = j.get("nshards", 1)
            for s in range(n):
                od = os.path.join(j["out"], "%s.%d" % (j["name"], s))
                futs.append(ex.submit(_run_one, j["name"], j["binary"], j.get("args", []), s, n, od,
                                      j.get("env"), j.get("timeout", timeout)))
        for f in futs:
            results.append(f.result())
    return results


# ----------------------------------------------------------------------------------------------
# merging summaries
# ----------------------------------------------------------------------------------------------
def merge_summaries(results):
    """Sum integer counters, max 'max_*' values, concatenate samples (bounded)."""
    tot = {"evaluations": 0, "distinct_nontrivial": 0, "counters": {}, "maxima": {}, "samples": [], "lists": {}}
    for r in results:
        s = r.summary
        if not s:
            continue
        tot["evaluations"] += int(s.get("evaluations", 0))
        tot["distinct_nontrivial"] += int(s.get("distinct_nontrivial", 0))
        for k, v in s.get("counters", {}).items():
            tot["counters"][k] = tot["counters"].get(k, 0) + v
        for k, v in s.get("maxima", {}).items():
            if k not in tot["maxima"] or v > tot["maxima"][k]:
                tot["maxima"][k] = v
        for k, v in s.get("lists", {}).items():
            cur = tot["lists"].setdefault(k, [])
            for x in v:
                if x not in cur and len(cur) < 400:
                    cur.append(x)
        for x in s.get("samples", []):
            if len(tot["samples"]) < 12:
                tot["samples"].append(x)
    return tot


# ----------------------------------------------------------------------------------------------
# known findings
# ----------------------------------------------------------------------------------------------
def load_findings():
    p = os.path.join(VERIF, "known_findings.json")
    if not os.path.exists(p):
        return []
    return json.load(open(p)).get("findings", [])


def match_known(prop, key):
    """A violation is known iff an entry with status 'known' for this property has a key that is a
    prefix-free exact match or a declared glob ('*' suffix) of the violation key."""
    for f in load_findings():
        if f.get("property") != prop or f.get("status") != "known":
            continue
        k = f["key"]
        if k == key or (k.endswith("*") and key.startswith(k[:-1])):
            return f
    return None


# ----------------------------------------------------------------------------------------------
# verdict + evidence
# ----------------------------------------------------------------------------------------------
COLLECTOR = None   # when set (by C20), finished verdicts are collected instead of written/printed


class Verdict:
    def __init__(self, prop, tier, seed):
        self.prop, self.tier, self.seed = prop, tier, seed
        self.origin = prop
        if COLLECTOR is not None:
            self.prop = COLLECTOR["prop"]   # known-findings matching happens under the collecting property
        self.t0 = time.time()
        self.violations = []      # dict(key, detail)
        self.known = {}           # key -> (finding, count)
        self.coverage = {}
        self.assumptions = []
        self.inconclusive = []
        self.level = "exploration"

    def add_violation(self, key, detail):
        f = match_known(self.prop, key)
        if f is not None:
            ent = self.known.setdefault(f["key"], [f, 0, detail])
            ent[1] += 1
        else:
            self.violations.append({"key": key, "detail": detail})

    def absorb(self, results, floor_evals=1):
        """Fold shard results in: violation records, crashes (via breadcrumb), missing summaries."""
        for r in results:
            for v in r.violations:
                self.add_violation(v.get("key", "no-key"), v)
            if r.timed_out:
                self.inconclusive.append("%s shard %d: watchdog fired after %.0fs" % (r.name, r.shard, r.wall))
                continue
            if r.rc != 0 and not (r.rc == 1 and r.violations):
                # the monitor died: sanitizer report, abort, escaped exception, signal
                crumb = r.breadcrumb()
                tail = (r.stderr or "")[-3000:]
                kind = classify_crash(r.rc, tail)
                key = "crash|%s|%s|%s" % (r.name, kind, crumb_key(crumb))
                self.add_violation(key, {"rc": r.rc, "breadcrumb": crumb, "stderr_tail": tail})
            elif r.summary is None:
                self.inconclusive.append("%s shard %d: no summary.json (rc=%d)" % (r.name, r.shard, r.rc))

    def finish(self, replay_dir=None):
        if COLLECTOR is not None:
            COLLECTOR["verdicts"].append(self)
            return 1 if self.violations else (2 if self.inconclusive else 0)
        wall = time.time() - self.t0
        cov = dict(self.coverage)
        cov.setdefault("evaluations", 0)
        cov.setdefault("distinct_nontrivial", 0)
        cov.setdefault("rule", "")
        cov.setdefault("samples", [])
        known_list = []
        for k, (f, n, d) in sorted(self.known.items()):
            log("KNOWN-FINDING: property=%s %s (key %s, %d observations this run)" % (self.prop, f["what"], k, n))
            known_list.append({"key": k, "observations": n})
        cov["known_findings_observed"] = known_list
        cov["violation_keys"] = sorted({v["key"] for v in self.violations})[:50]
        if self.inconclusive:
            cov["inconclusive_reasons"] = self.inconclusive[:20]
        ev = {
            "property_id": self.prop, "tier": self.tier, "seed": self.seed, "level": self.level,
            "coverage": cov, "assumptions": self.assumptions, "wall_s": round(wall, 2),
            "violations": len(self.violations),
        }
        os.makedirs(EVIDENCE, exist_ok=True)
        tmp = os.path.join(EVIDENCE, "%s.json.tmp" % self.prop)
        json.dump(ev, open(tmp, "w"), indent=1, ensure_ascii=False, default=str)
        os.replace(tmp, os.path.join(EVIDENCE, "%s.json" % self.prop))
        if self.violations:
            rd = replay_dir or os.path.join(OUT, self.prop)
            os.makedirs(rd, exist_ok=True)
            seen = set()
            n = 0
            for v in self.violations:
                if v["key"] in seen:
                    continue
                seen.add(v["key"])
                n += 1
                if n > 25:
                    break
                rp = os.path.join(rd, "replay-%s-%d.json" % (self.tier, n))
                json.dump({"property": self.prop, "seed": self.seed, "tier": self.tier, "key": v["key"],
                           "violation": v["detail"]}, open(rp, "w"), indent=1, ensure_ascii=False, default=str)
                log("VIOLATION property=%s replay=%s" % (self.prop, rp))
                log("  key: %s" % v["key"])
            log("[%s] %d violating observations, %d distinct keys" % (self.prop, len(self.violations), len(seen)))
            return 1
        if self.inconclusive:
            for m in self.inconclusive[:10]:
                log("INCONCLUSIVE: %s" % m)
            return 2
        if cov["evaluations"] < 1 or cov["distinct_nontrivial"] < 2:
            log("INCONCLUSIVE: the monitors observed nothing (evaluations=%s distinct=%s)" %
                (cov["evaluations"], cov["distinct_nontrivial"]))
            return 2
        log("[%s] held on everything observed: %d evaluations, %d distinct non-trivial cases, %.1fs" %
            (self.prop, cov["evaluations"], cov["distinct_nontrivial"], wall))
        return 0


def classify_crash(rc, tail):
    if "AddressSanitizer" in tail:
        return "asan"
    if "runtime error:" in tail:
        return "ubsan"
    if "Error: attempt to" in tail or "__glibcxx_assert" in tail or "Assertion" in tail:
        return "libstdcxx-assert"
    if "terminate called" in tail:
        import re
        m = re.search(r"instance of '([^']+)'", tail)
        return "uncaught:" + (m.group(1) if m else "unknown")
    if "LeakSanitizer" in tail:
        return "lsan"
    if rc < 0:
        return "signal%d" % (-rc)
    return "exit%d" % rc


def crumb_key(crumb):
    """The breadcrumb's first line is the canonical call-site key; later lines are witness data."""
    return crumb.split("\n")[0].strip() if crumb else "no-breadcrumb"


def seed_from_env():
    try:
        return int(os.environ.get("VERIF_SEED", "1"))
    except ValueError:
        return 1
