"""Independent oracle for unit symbols: a small grammar over an atom table with exact magnitudes.

A symbol such as  ft·lbf/slug/°R ,  kg·m/(s^3·°C) ,  /min ,  m2/s2/K  or  kiB/s  is parsed into the set
of its possible meanings (magnitude as an exact Fraction times a power of pi, plus a dimension
7-vector in the library's order T, L, M, I, Theta, N, J).  Atoms that are ambiguous in print
(`lb`, `C`, `R`, `F`, ...) carry several meanings; callers select by the dimension of the unit type.
Nothing here is read from the library's conversion code."""
from fractions import Fraction as Fr
import itertools
import re

# dimension order used by PhQ::Dimensions: Time, Length, Mass, ElectricCurrent, Temperature,
# SubstanceAmount, LuminousIntensity
T, L, M, I, TH, N, J = range(7)


def dim(**kw):
    v = [0] * 7
    for k, e in kw.items():
        v[{"T": T, "L": L, "M": M, "I": I, "TH": TH, "N": N, "J": J}[k]] = e
    return tuple(v)


D0 = dim()


class Meaning:
    __slots__ = ("mag", "pi", "dims", "is_temperature_scale")

    def __init__(self, mag, dims, pi=0, scale=None):
        self.mag = Fr(mag)
        self.pi = pi
        self.dims = tuple(dims)
        self.is_temperature_scale = scale  # None, or offset in kelvin of the scale's zero (for bare °C/°F)

    def key(self):
        return (self.mag, self.pi, self.dims)

    def __repr__(self):
        return "Meaning(%s*pi^%d %s)" % (self.mag, self.pi, self.dims)


def mul(a, b, sign=1):
    return Meaning(a.mag * (b.mag ** sign), tuple(x + sign * y for x, y in zip(a.dims, b.dims)), a.pi + sign * b.pi)


def power(a, n):
    return Meaning(a.mag ** n, tuple(x * n for x in a.dims), a.pi * n)


ONE = Meaning(1, D0)

# ------------------------------------------------------------------------------------------------
# atom table
# ------------------------------------------------------------------------------------------------
ATOMS = {}


def atom(names, mag, dims, pi=0, scale=None):
    for n in names.split():
        ATOMS.setdefault(n, []).append(Meaning(mag, dims, pi, scale))


LBM = Fr("0.45359237")
G0 = Fr("9.80665")
FT = Fr("0.3048")
IN = Fr("0.0254")
LBF = LBM * G0
E_CHARGE = Fr("1.602176634") / Fr(10) ** 19
AVOGADRO = Fr("6.02214076") * Fr(10) ** 23

PREFIX = {"f": Fr(1, 10 ** 15), "p": Fr(1, 10 ** 12), "n": Fr(1, 10 ** 9), "μ": Fr(1, 10 ** 6), "u": Fr(1, 10 ** 6),
          "m": Fr(1, 1000), "c": Fr(1, 100), "d": Fr(1, 10), "da": Fr(10), "h": Fr(100), "k": Fr(1000), "M": Fr(10 ** 6),
          "G": Fr(10 ** 9), "T": Fr(10 ** 12), "P": Fr(10 ** 15), "E": Fr(10 ** 18)}
ALL_SI = "f p n μ u m c d da h k M G T P E"
WORD_PREFIX = {"nano": "n", "micro": "μ", "milli": "m", "centi": "c", "deci": "d", "kilo": "k", "mega": "M",
               "giga": "G", "tera": "T", "peta": "P"}


def prefixed(base_names, mag, dims, prefixes):
    for b in base_names.split():
        atom(b, mag, dims)
        for p in prefixes.split():
            atom(p + b, Fr(mag) * PREFIX[p], dims)


# length
prefixed("m", 1, dim(L=1), "f p n μ u m c d da h k M G")
atom("metre metres meter meters", 1, dim(L=1))
for _w, _p in (("nano", "n"), ("micro", "μ"), ("Micro", "μ"), ("milli", "m"), ("centi", "c"), ("deci", "d"), ("kilo", "k")):
    atom(" ".join(_w + x for x in ("metre", "metres", "meter", "meters")), PREFIX[_p], dim(L=1))
atom("micron microns", Fr(1, 10 ** 6), dim(L=1))
atom("nautical_mile nautical_miles", 1852, dim(L=1))
atom("nmi NM", 1852, dim(L=1))
atom("mi mile miles", Fr("1609.344"), dim(L=1))
atom("yd yard yards", Fr("0.9144"), dim(L=1))
atom("ft foot feet", FT, dim(L=1))
atom("in inch inches", IN, dim(L=1))
atom("mil mils thou thous thousandth thousandths milin milliinch milliinches millinch", IN / 1000, dim(L=1))
atom("μin uin microinch microinches", IN / 10 ** 6, dim(L=1))
# mass
prefixed("g", Fr(1, 1000), dim(M=1), "p n μ u m c d k M")
atom("slug slugs", LBF / FT, dim(M=1))
atom("slinch slinches", LBF / IN, dim(M=1))
atom("lbm", LBM, dim(M=1))
# time
prefixed("s", 1, dim(T=1), "f p n μ u m k M")
atom("second seconds sec", 1, dim(T=1))
atom("nanosecond nanoseconds", Fr(1, 10 ** 9), dim(T=1))
atom("microsecond microseconds", Fr(1, 10 ** 6), dim(T=1))
atom("millisecond milliseconds", Fr(1, 1000), dim(T=1))
atom("min mins minute minutes", 60, dim(T=1))
atom("hr hrs hour hours", 3600, dim(T=1))
# angle (dimensionless)
atom("rad radian radians", 1, D0)
atom("deg degree degrees °", Fr(1, 180), D0, pi=1)
atom("arcmin arcminute arcminutes am '", Fr(1, 10800), D0, pi=1)
atom('arcsec arcsecond arcseconds arcs as "', Fr(1, 648000), D0, pi=1)
atom("rev revolution revolutions", 2, D0, pi=1)
atom("sr steradian steradians", 1, D0)
# temperature: as factors these are intervals; the scale offsets only matter for a bare symbol in the
# unit type Temperature (handled by `temperature_offset`).
atom("K °K degK kelvin", 1, dim(TH=1), scale=Fr(0))
atom("°C degC C", 1, dim(TH=1), scale=Fr("273.15"))
atom("°R degR R", Fr(5, 9), dim(TH=1), scale=Fr(0))
atom("°F degF F", Fr(5, 9), dim(TH=1), scale=Fr("459.67") * Fr(5, 9))
# force, pressure, energy, power
prefixed("N", 1, dim(M=1, L=1, T=-2), ALL_SI)
atom("dyn", Fr(1, 10 ** 5), dim(M=1, L=1, T=-2))
atom("lbf lb", LBF, dim(M=1, L=1, T=-2))
atom("lb", LBM, dim(M=1))
prefixed("Pa", 1, dim(M=1, L=-1, T=-2), ALL_SI)
atom("bar", 10 ** 5, dim(M=1, L=-1, T=-2))
atom("atm atmosphere atmospheres", 101325, dim(M=1, L=-1, T=-2))
atom("psi", LBF / IN ** 2, dim(M=1, L=-1, T=-2))
atom("psf", LBF / FT ** 2, dim(M=1, L=-1, T=-2))
atom("P poise", Fr(1, 10), dim(M=1, L=-1, T=-1))
prefixed("J", 1, dim(M=1, L=2, T=-2), ALL_SI)
prefixed("cal", Fr("4.184"), dim(M=1, L=2, T=-2), ALL_SI)
atom("Cal", Fr("4184"), dim(M=1, L=2, T=-2))
prefixed("eV", E_CHARGE, dim(M=1, L=2, T=-2), ALL_SI)
atom("BTU btu Btu", Fr("1055.05585262"), dim(M=1, L=2, T=-2))
prefixed("W", 1, dim(M=1, L=2, T=-3), ALL_SI)
# area, volume
atom("ha hectare hectares", 10 ** 4, dim(L=2))
atom("ac acre acres", Fr("1609.344") ** 2 / 640, dim(L=2))
atom("L l litre litres liter liters", Fr(1, 1000), dim(L=3))
atom("mL ml millilitre millilitres milliliter milliliters", Fr(1, 10 ** 6), dim(L=3))
# frequency, speed
prefixed("Hz", 1, dim(T=-1), ALL_SI)
atom("kn knot knots", Fr(1852, 3600), dim(L=1, T=-1))
# substance amount
prefixed("mol", 1, dim(N=1), ALL_SI)
atom("particles particle", 1 / AVOGADRO, dim(N=1))
# electricity
prefixed("A", 1, dim(I=1), ALL_SI)
prefixed("C", 1, dim(I=1, T=1), ALL_SI)
atom("e", E_CHARGE, dim(I=1, T=1))
# memory (dimensionless in this library)
atom("b bit bits", 1, D0)
atom("B byte bytes", 8, D0)
_DEC = {"k": 10 ** 3, "M": 10 ** 6, "G": 10 ** 9, "T": 10 ** 12, "P": 10 ** 15}
_BIN = {"ki": 2 ** 10, "Mi": 2 ** 20, "Gi": 2 ** 30, "Ti": 2 ** 40, "Pi": 2 ** 50}
_WDEC = {"kilo": 10 ** 3, "mega": 10 ** 6, "giga": 10 ** 9, "tera": 10 ** 12, "peta": 10 ** 15}
_WBIN = {"kibi": 2 ** 10, "mebi": 2 ** 20, "gibi": 2 ** 30, "tebi": 2 ** 40, "pebi": 2 ** 50}
for _p, _f in list(_DEC.items()) + list(_BIN.items()):
    atom(_p + "b", _f, D0)
    atom(_p + "B", 8 * _f, D0)
for _p, _f in list(_WDEC.items()) + list(_WBIN.items()):
    atom(_p + "bit " + _p + "bits", _f, D0)
    atom(_p + "byte " + _p + "bytes", 8 * _f, D0)

# ------------------------------------------------------------------------------------------------
# grammar
# ------------------------------------------------------------------------------------------------
SEP = "·*"          # product separators inside unit symbols
TOKEN = re.compile(r"\s*(\^\(-?\d+\)|\^-?\d+|[·*/()]|[^·*/()^\s]+)")


class ParseError(Exception):
    pass


def tokenize(s):
    toks = []
    pos = 0
    s = s.strip()
    while pos < len(s):
        m = TOKEN.match(s, pos)
        if not m:
            raise ParseError("cannot tokenize %r at %d" % (s, pos))
        toks.append(m.group(1))
        pos = m.end()
    return toks


def split_power(tok):
    """'m2' -> ('m', 2); 's3' -> ('s', 3); a bare '1' stays."""
    m = re.fullmatch(r"(.*?[^\d\-])(\d+)", tok)
    if m:
        return m.group(1), int(m.group(2))
    return tok, 1


class Parser:
    """expr := ['1'] { '/' factor } | factor { (sep | '/') factor }     (left to right)
       factor := atom[digits] ['^' int] | '(' expr ')' ['^' int]"""

    def __init__(self, toks):
        self.t = toks
        self.i = 0
        self.unknown = []

    def peek(self):
        return self.t[self.i] if self.i < len(self.t) else None

    def take(self):
        tok = self.peek()
        self.i += 1
        return tok

    def parse(self):
        r = self.expr()
        if self.peek() is not None:
            raise ParseError("trailing token %r" % self.peek())
        return r

    def expr(self):
        # returns list of alternatives (Meaning)
        if self.peek() == "/":
            cur = [ONE]
        else:
            cur = self.factor()
        while True:
            tok = self.peek()
            if tok is None or tok == ")":
                return cur
            if tok == "/":
                self.take()
                rhs = self.factor()
                cur = [mul(a, b, -1) for a in cur for b in rhs]
            elif tok in SEP:
                self.take()
                rhs = self.factor()
                cur = [mul(a, b) for a in cur for b in rhs]
            else:
                raise ParseError("unexpected token %r" % tok)

    def factor(self):
        tok = self.take()
        if tok is None:
            raise ParseError("unexpected end")
        if tok == "(":
            inner = self.expr()
            if self.take() != ")":
                raise ParseError("missing )")
            base = inner
        elif tok == "1":
            base = [ONE]
        elif tok in "/·*)^" or tok.startswith("^"):
            raise ParseError("unexpected %r" % tok)
        else:
            name, n = tok, 1
            if name not in ATOMS:
                name, n = split_power(tok)
            if name not in ATOMS:
                self.unknown.append(tok)
                raise ParseError("unknown atom %r" % tok)
            base = [power(m, n) for m in ATOMS[name]]
        nxt = self.peek()
        if nxt is not None and nxt.startswith("^"):
            self.take()
            n = int(nxt.strip("^()"))
            base = [power(m, n) for m in base]
        return base


def meanings(symbol):
    """All meanings of a symbol (deduplicated). Raises ParseError for unknown atoms / syntax."""
    whole = symbol.strip().replace(" ", "_")
    if whole in ATOMS:
        alts = list(ATOMS[whole])
    else:
        p = Parser(tokenize(symbol))
        alts = p.parse()
    seen = {}
    for a in alts:
        seen[a.key()] = a
    return list(seen.values())


def meanings_with_dims(symbol, dims):
    return [m for m in meanings(symbol) if m.dims == tuple(dims)]


def temperature_offset(symbol):
    """Zero offset (kelvin) of a bare temperature-scale symbol, or None if the symbol is not one."""
    s = symbol.strip()
    if s in ATOMS:
        for m in ATOMS[s]:
            if m.is_temperature_scale is not None:
                return m.is_temperature_scale
    return None


def frac_to_decimal(fr, digits=45):
    """Decimal string of a Fraction with `digits` significant digits (scientific), for binary128 parsing."""
    if fr == 0:
        return "0"
    sign = "-" if fr < 0 else ""
    fr = abs(fr)
    # exponent
    e = 0
    n, d = fr.numerator, fr.denominator
    while n >= 10 * d:
        d *= 10
        e += 1
    while n < d:
        n *= 10
        e -= 1
    # n/d in [1,10)
    scaled = n * 10 ** (digits - 1) // d
    s = str(scaled)
    return "%s%s.%se%d" % (sign, s[0], s[1:], e)
